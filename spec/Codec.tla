------------------------------- MODULE Codec -------------------------------
(* C16: the hand-rolled codecs of src/serialization.rs and the segment framing of                 *)
(* src/wal/storage.rs, transcribed on sequences of byte values.                                    *)
(* Numbers: a little-endian u32 whose value is 65536 or more is the symbolic Huge (larger than     *)
(* every input); u64 fields and hashes stay byte sequences.                                        *)
EXTENDS Integers, Sequences, FiniteSets, TLC

Huge == 1000000
U32At(b, p) == IF b[p + 2] # 0 \/ b[p + 3] # 0 THEN Huge ELSE b[p] + 256 * b[p + 1]
LE32(n) == <<n % 256, (n \div 256) % 256, 0, 0>>
RECURSIVE Cat(_)
Cat(ss) == IF ss = <<>> THEN <<>> ELSE Head(ss) \o Cat(Tail(ss))

\* ---- cursor helpers: result [ok, v, p]; kind of failure as in SerializationError
Fail(k) == [ok |-> FALSE, kind |-> k]
ReadU8(b, p)  == IF p > Len(b) THEN Fail("eof") ELSE [ok |-> TRUE, v |-> b[p], p |-> p + 1]
ReadU32(b, p) == IF p + 3 > Len(b) THEN Fail("short") ELSE [ok |-> TRUE, v |-> U32At(b, p), p |-> p + 4]
Take(b, p, n) == IF n >= Huge \/ p + n - 1 > Len(b) THEN Fail("short") ELSE [ok |-> TRUE, v |-> SubSeq(b, p, p + n - 1), p |-> p + n]
ReadLenBytes(b, p) == LET l == ReadU32(b, p) IN IF ~l.ok THEN l ELSE Take(b, l.p, l.v)

NoOpV == [t |-> "", key |-> <<>>, hash |-> <<>>, size |-> <<>>, keys |-> <<>>]

\* ---- deserialize_wal_op_raw (trailing bytes are ignored, as in the code)
RECURSIVE ReadKeys(_, _, _, _)
ReadKeys(b, p, n, acc) ==
    IF n = 0 THEN [ok |-> TRUE, v |-> acc, p |-> p]
    ELSE LET k == ReadLenBytes(b, p) IN
         IF ~k.ok THEN k ELSE ReadKeys(b, k.p, IF n = Huge THEN Huge ELSE n - 1, Append(acc, k.v))

DecOp(b) ==
    LET tg == ReadU8(b, 1) IN
    IF ~tg.ok THEN [st |-> "eof", op |-> NoOpV]
    ELSE IF tg.v = 0 THEN
        LET k == ReadLenBytes(b, 2) IN
        IF ~k.ok THEN [st |-> k.kind, op |-> NoOpV] ELSE
        LET h == Take(b, k.p, 32) IN
        IF ~h.ok THEN [st |-> h.kind, op |-> NoOpV] ELSE
        LET z == Take(b, h.p, 8) IN
        IF ~z.ok THEN [st |-> z.kind, op |-> NoOpV]
        ELSE [st |-> "ok", op |-> [t |-> "put", key |-> k.v, hash |-> h.v, size |-> z.v, keys |-> <<>>]]
    ELSE IF tg.v = 1 THEN
        LET n == ReadU32(b, 2) IN
        IF ~n.ok THEN [st |-> n.kind, op |-> NoOpV] ELSE
        LET ks == ReadKeys(b, n.p, n.v, <<>>) IN
        IF ~ks.ok THEN [st |-> ks.kind, op |-> NoOpV]
        ELSE [st |-> "ok", op |-> [NoOpV EXCEPT !.t = "rm", !.keys = ks.v]]
    ELSE [st |-> "tag", op |-> NoOpV]

EncOp(op) ==
    IF op.t = "put" THEN <<0>> \o LE32(Len(op.key)) \o op.key \o op.hash \o op.size
    ELSE <<1>> \o LE32(Len(op.keys)) \o Cat([i \in 1..Len(op.keys) |-> LE32(Len(op.keys[i])) \o op.keys[i]])

\* ---- deserialize_index_state: entries go into a map (a later duplicate key wins)
RECURSIVE ReadEnts(_, _, _, _)
ReadEnts(b, p, n, acc) ==
    IF n = 0 THEN [ok |-> TRUE, v |-> acc, p |-> p]
    ELSE LET k == ReadLenBytes(b, p) IN
         IF ~k.ok THEN k ELSE
         LET h == Take(b, k.p, 32) IN
         IF ~h.ok THEN h ELSE
         LET z == Take(b, h.p, 8) IN
         IF ~z.ok THEN z
         ELSE ReadEnts(b, z.p, IF n = Huge THEN Huge ELSE n - 1,
                       {e \in acc : e.key # k.v} \cup {[key |-> k.v, hash |-> h.v, size |-> z.v]})

DecSnap(b) ==
    LET v == Take(b, 1, 8) IN
    IF ~v.ok THEN [st |-> v.kind, ver |-> <<>>, ents |-> {}] ELSE
    LET n == ReadU32(b, v.p) IN
    IF ~n.ok THEN [st |-> n.kind, ver |-> <<>>, ents |-> {}] ELSE
    LET es == ReadEnts(b, n.p, n.v, {}) IN
    IF ~es.ok THEN [st |-> es.kind, ver |-> <<>>, ents |-> {}]
    ELSE [st |-> "ok", ver |-> v.v, ents |-> es.v]

EncSnap(ver, ents) ==
    ver \o LE32(Len(ents)) \o Cat([i \in 1..Len(ents) |-> LE32(Len(ents[i].key)) \o ents[i].key \o ents[i].hash \o ents[i].size])

\* ---- SegmentReader, iterated.  sums[i] = does the checksum of the i-th complete frame match (BLAKE3 is not
\*      transcribed; the flag comes from the harness's own framing)
AllZero(q) == \A i \in 1..Len(q) : q[i] = 0
RECURSIVE DecSeg(_, _, _, _)
DecSeg(b, p, sums, acc) ==
    IF Len(b) - p + 1 < 44 THEN [entries |-> acc, err |-> ""]                           \* short header: clean end
    ELSE LET ver == SubSeq(b, p, p + 7)
             len == U32At(b, p + 40) IN
         IF AllZero(ver) THEN [entries |-> acc, err |-> ""]                             \* end marker / version 0
         ELSE IF len = 0 THEN [entries |-> acc, err |-> ""]                             \* zero length
         ELSE IF len >= Huge \/ p + 44 + len - 1 > Len(b) THEN [entries |-> acc, err |-> "shortdata"]
         ELSE IF sums = <<>> \/ ~Head(sums) THEN [entries |-> acc, err |-> "checksum"]
         ELSE DecSeg(b, p + 44 + len, Tail(sums), Append(acc, [v |-> ver, data |-> SubSeq(b, p + 44, p + 44 + len - 1)]))

\* the decoders' allocation stays within a constant factor of the input (not of a length FIELD)
AllocOk(alloc, n) == alloc <= 64 * n + 4096
=============================================================================
