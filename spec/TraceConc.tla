------------------------------ MODULE TraceConc ------------------------------
(***************************************************************************)
(* Trace specification for recorded CONCURRENT executions (harness mode C).*)
(* Lines: reset (program) | init (observed start state) | step (thread t   *)
(* executed the code between yield point `at` and yield point `to`;        *)
(* observed lock mask, index, intents, blob directory; results of calls    *)
(* that returned) | blocked | end.                                         *)
(*                                                                         *)
(* Property conjuncts are evaluated on the OBSERVED state after every      *)
(* scheduling step; the CasConc model is stepped along the same schedule   *)
(* (StepT) and compared (refinement; mismatches are DRIFT, not violations).*)
(***************************************************************************)
EXTENDS CasConc, Json, IOUtils

Lines == ndJsonDeserialize(IOEnv.TRACE)

VARIABLES l, s, sc, lobs, oseen, oopi, failed
\* s: model; lobs: last observation; oseen[t]: values the key of t's current call was SEEN to hold since
\* the call started; oopi[t]: index of t's current call; failed: some call returned an error
vars == <<l, s, sc, lobs, oseen, oopi, failed>>

SeqToSet(q) == {q[i] : i \in 1..Len(q)}
Fail(cond, tag) == IF cond THEN {} ELSE {tag}
RECURSIVE JoinTags(_)
JoinTags(S) == IF S = {} THEN "" ELSE LET x == CHOOSE x \in S : TRUE IN x \o ";" \o JoinTags(S \ {x})
Report(tags) == IF tags = {} THEN TRUE ELSE PrintT("FAIL@" \o ToString(l) \o "@" \o ToString(sc.sid) \o "#" \o ToString(sc.sched) \o "@" \o JoinTags(tags))

Line == Lines[l]
NT == Len(sc.threads)
OpOf(t, i) == sc.threads[t][i]
KeyOf(op) == IF "k" \in DOMAIN op THEN op.k ELSE 0
IsRead(op) == op.op \in {"get", "size", "range", "reader"}
HasFailOp == \E t \in 1..Len(sc.threads) : \E i \in 1..Len(sc.threads[t]) : sc.threads[t][i].op = "putfail"

(***************************************************************************)
(* The directory at a scheduling step (every worker parked), decoded by the *)
(* independent reader: what a process kill at this instant leaves behind.   *)
(* C20: the log and snapshot are well-formed; C03/C04: the model's recovery *)
(* of it succeeds, every key holds the value the handle shows or the value  *)
(* an operation in flight is writing, and every referenced blob is there.   *)
(***************************************************************************)
SegsOfJson(js) == [id \in {js[i].id : i \in 1..Len(js)} |->
                      LET i == CHOOSE i \in 1..Len(js) : js[i].id = id IN js[i].items]
DiskOfJson(dj) == [settings |-> dj.settings, snap |-> dj.snap, segs |-> SegsOfJson(dj.segs)]
\* values that operations in flight (called, not yet returned) may be writing to key k
InFlightVals(k) ==
    UNION { LET op == OpOf(u, oopi[u]) IN
            IF op.op \in {"put", "txfinish"} /\ op.k = k THEN {op.c}
            ELSE IF op.op = "del" /\ op.k = k THEN {Absent}
            ELSE IF op.op = "delr" THEN {Absent}
            ELSE {}
          : u \in {u \in 1..NT : oopi[u] <= Len(sc.threads[u])} }
DiskFails(o) ==
    IF ~("disk" \in DOMAIN o) THEN {} ELSE
    LET d == DiskOfJson(o.disk)
        r == Recover(d, sc.n)
    IN  UNION {
          Fail(\A id \in DOMAIN d.segs : SegmentWellFormed(d.segs[id]), "C20:segment-shape"),
          Fail(VersionsIncreasing(d.segs), "C20:versions-increasing"),
          Fail(VersionsInRange(d.segs, sc.n), "C20:version-range"),
          Fail(d.snap.st \in {"none", "full"}, "C20:snapshot-complete"),
          Fail(r.ok, "C03:crash-image-not-recoverable"),
          IF r.ok /\ o.has_idx
          THEN Fail(\A k \in Keys : r.idx[k] = o.idx[k] \/ (lobs.has_idx /\ r.idx[k] = lobs.idx[k]) \/ r.idx[k] \in InFlightVals(k),
                    "C03:crash-image-shows-a-value-nobody-wrote")
          ELSE {},
          IF r.ok THEN Fail(\A k \in Keys : r.idx[k] # Absent => r.idx[k] \in SeqToSet(o.cas), "C04:dangling-after-crash") ELSE {}
        }
\* at quiescence (every call returned, none failed): snapshot plus log, decoded independently, equal the state the handle shows
\* (dj: the directory as decoded after the last step - carried by the `end` line; null if no step was recorded)
QuiescentDiskFails(o, dj) ==
    IF ~o.has_idx \/ ~("segs" \in DOMAIN dj) THEN {} ELSE
    LET r == Recover(DiskOfJson(dj), sc.n) IN
    Fail(r.ok /\ r.idx = o.idx, "C20:decode-equals-history")

Init == l = 1 /\ s = ConcInit(1, EmptyIdx, {}, 1, <<>>, <<>>) /\ sc = [sid |-> "", sched |-> "", threads |-> <<>>, n |-> 1, plant |-> <<>>, stgleft |-> FALSE]
        /\ lobs = [has_idx |-> FALSE] /\ oseen = <<>> /\ oopi = <<>> /\ failed = FALSE

OnReset == /\ Line.ev = "reset"
           /\ sc' = [sid |-> Line.sid, sched |-> Line.sched, threads |-> Line.threads, n |-> Line.cfg.n,
                     plant |-> [i \in 1..Len(Line.plant) |-> Line.plant[i].c],
                     \* a planted staging leftover stays unless a clean-up ran
                     stgleft |-> \E i \in 1..Len(Line.plant) : "kind" \in DOMAIN Line.plant[i] /\ Line.plant[i].kind = "staging"]
           /\ UNCHANGED <<s, lobs, oseen, oopi, failed>>

OnInit == /\ Line.ev = "init"
          /\ s' = ConcInit(sc.n, Line.obs.idx, SeqToSet(Line.obs.cas), Line.obs.nv, Line.orph, sc.threads)
          /\ lobs' = Line.obs
          /\ oseen' = [t \in 1..NT |-> {}] /\ oopi' = [t \in 1..NT |-> 1] /\ failed' = FALSE
          /\ Report(Fail(\A k \in Keys : Line.obs.idx[k] # Absent => Line.obs.idx[k] \in SeqToSet(Line.obs.cas), "C04:dangling-at-start"))
          /\ UNCHANGED sc

\* observed values of key k: before the step (lobs) and after it (o)
Vals(o, k) == (IF o.has_idx THEN {o.idx[k]} ELSE {}) \cup (IF lobs.has_idx THEN {lobs.idx[k]} ELSE {})

RetFails(r, seen) ==
    LET op == r.op IN
    UNION {
      Fail(r.res.val # "panic", "C15:panic-" \o r.res.err),
      IF IsRead(op) THEN Fail(r.res.ok, "C05:read-failed-" \o r.res.err) ELSE {},
      \* nothing is injected in these runs: a write-side call has no reason to fail
      IF ~IsRead(op) THEN Fail(r.res.ok, "OPFAIL:" \o op.op \o "-failed-" \o r.res.err) ELSE {},
      \* the one operation that is MEANT to fail (the harness removes its staging file before finish): it reports "failed"
      IF op.op = "putfail" /\ r.res.ok THEN Fail(r.res.val = "failed", "DRIFT:putfail-did-not-fail") ELSE {},
      IF IsRead(op) /\ r.res.ok THEN Fail(r.res.val \in seen, "C05:read-value-not-held-during-call") ELSE {},
      IF op.op \in {"put", "txfinish"} /\ r.res.ok THEN Fail(op.c \in seen, "C05:put-not-visible-during-call") ELSE {},
      IF op.op = "del" /\ r.res.ok /\ r.res.val = "true" THEN Fail(seen \ {Absent} # {}, "C05:remove-true-but-never-present") ELSE {},
      IF op.op = "del" /\ r.res.ok /\ r.res.val = "false" THEN Fail(Absent \in seen, "C05:remove-false-but-always-present") ELSE {}
    }

OnStep ==
    /\ Line.ev = "step"
    /\ LET t   == Line.t
           o   == Line.obs
           pre == s.th[t].pc = Line.at /\ Enabled(s, t)
           stuckW == Line.to = "stuck" /\ s.th[t].pc = Line.at /\ CanQueue(s, t)
           stuckR == Line.to = "stuck" /\ s.th[t].pc = Line.at /\ NeedsSr(Line.at) /\ ~Enabled(s, t)
           s2  == IF stuckW THEN Queue(s, t) ELSE IF pre THEN StepObs(s, t) ELSE s
           \* calls that start in this step see the value at invocation
           starts == Line.at = "call"
           curk(u) == IF oopi[u] <= Len(sc.threads[u]) THEN KeyOf(OpOf(u, oopi[u])) ELSE 0
           seen1 == [u \in 1..NT |->
                        IF curk(u) = 0 THEN {}
                        ELSE IF u = t /\ starts THEN Vals(o, curk(u))
                        ELSE IF oseen[u] # {} \/ u = t THEN oseen[u] \cup Vals(o, curk(u)) ELSE oseen[u]]
           rets == Line.rets
           retT == {rets[i].t : i \in 1..Len(rets)}
       IN
       /\ Report(UNION {
             \* ---- property conjuncts on the observed state
             Fail(~o.has_idx \/ \A k \in Keys : o.idx[k] # Absent => o.idx[k] \in SeqToSet(o.cas), "C04:dangling-reference"),
             Fail(o.casbad = <<>>, "C06:blob-bytes"),
             Fail(o.casw = 0, "C06:in-place-write-under-cas"),
             DiskFails(o),
             UNION { RetFails(rets[i], seen1[rets[i].t]) : i \in 1..Len(rets) },
             \* ---- refinement
             Fail(pre \/ stuckW \/ stuckR, "DRIFT:model-thread-not-at-" \o Line.at),
             IF pre /\ Line.to # "stuck" THEN UNION {
                 Fail(s2.th[t].pc = Line.to \/ (Line.to = "done" /\ s2.th[t].pc = "done"), "DRIFT:next-point-" \o Line.to \o "-model-" \o s2.th[t].pc),
                 Fail(~o.has_idx \/ o.idx = s2.idx, "DRIFT:index"),
                 Fail(~o.has_intents \/ o.intents = s2.intents, "DRIFT:intents"),
                 Fail(SeqToSet(o.cas) = s2.cas, "DRIFT:cas"),
                 Fail(o.mask.i = (s2.lkI # 0) /\ (o.mask.s = 2) = (s2.lkS # 0 \/ s2.wq # {}) /\ (o.mask.s = 1) = (s2.rd \cup s2.ug # {} /\ s2.wq = {})
                      /\ o.mask.w = (s2.lkW # 0), "DRIFT:lock-mask"),
                 UNION { LET r == rets[i] IN
                         Fail(~r.res.ok \/ (r.res.val = s2.th[r.t].res /\ (r.res.val = "count" => r.res.n = s2.th[r.t].resn)),
                              "DRIFT:result") : i \in 1..Len(rets) }
               } ELSE {}
          })
       /\ s' = s2
       /\ oseen' = [u \in 1..NT |-> IF u \in retT THEN {} ELSE seen1[u]]
       /\ oopi' = [u \in 1..NT |-> oopi[u] + Cardinality({i \in 1..Len(rets) : rets[i].t = u})]
       /\ failed' = (failed \/ \E i \in 1..Len(rets) : ~rets[i].res.ok)
       /\ lobs' = o
    /\ UNCHANGED sc

OnBlocked == Line.ev = "blocked" /\ Report({"C15:deadlock"}) /\ UNCHANGED <<s, sc, lobs, oseen, oopi, failed>>

OnEnd == /\ Line.ev = "end"
         /\ Report(IF Line.blocked \/ failed THEN {} ELSE
              UNION {
                Fail(\A t \in 1..NT : oopi[t] = Len(sc.threads[t]) + 1, "C15:call-never-returned"),
                \* C07 at quiescence of an error-free program (planted orphans may legitimately remain if no clean-up ran)
                \* (a reverted commit may leave an unreferenced blob behind that it protected while its last holder was removed: an
                \*  orphan for the next start-up scan - not an error-free program, noted beyond the list)
                Fail(HasFailOp \/ (lobs.has_idx /\ SeqToSet(lobs.cas) \ SeqToSet(sc.plant) = Live(lobs.idx) \ SeqToSet(sc.plant)), "C07:cas-listing-at-quiescence"),
                IF HasFailOp THEN Fail(lobs.has_idx /\ SeqToSet(lobs.cas) \ SeqToSet(sc.plant) = Live(lobs.idx) \ SeqToSet(sc.plant),
                                       "BEYOND:orphan-left-after-a-reverted-commit") ELSE {},
                \* ... but nothing LESS than the live set, ever
                Fail(~lobs.has_idx \/ Live(lobs.idx) \subseteq SeqToSet(lobs.cas), "C04:dangling-at-quiescence"),
                Fail(lobs.stg = 0 \/ (sc.stgleft /\ lobs.stg = 1), "C07:staging-at-quiescence"),
                \* (C07 speaks of error-free programs; a program with a commit that is made to fail is judged beyond the list)
                Fail(HasFailOp \/ (lobs.has_intents /\ \A k \in Keys : lobs.intents[k] = Absent), "C07:intent-left"),
                IF HasFailOp THEN Fail(lobs.has_intents /\ \A k \in Keys : lobs.intents[k] = Absent,
                                       "BEYOND:intent-slot-left-after-a-reverted-commit") ELSE {},
                QuiescentDiskFails(lobs, Line.disk),
                Fail(AllDone(s), "DRIFT:model-not-done")
              })
         /\ UNCHANGED <<s, sc, lobs, oseen, oopi, failed>>

\* after the run: a clean restart shows the state the handle showed (the log tells the same story as the memory),
\* and every key is readable
OnFinal == /\ Line.ev = "final"
           /\ Report(UNION {
                 Fail(Line.res.ok, "C04:reopen-after-concurrent-run-failed-" \o Line.res.err),
                 Fail(~Line.res.ok \/ ~Line.before.has_idx \/ Line.idx = Line.before.idx, "C05:restart-after-concurrent-run-changed-the-state"),
                 Fail(~Line.res.ok \/ failed \/ Line.get = Line.idx, "C04:unreadable-after-restart") })
           /\ UNCHANGED <<s, sc, lobs, oseen, oopi, failed>>

Next == l <= Len(Lines) /\ l' = l + 1 /\ (OnReset \/ OnInit \/ OnStep \/ OnBlocked \/ OnEnd \/ OnFinal)
Spec == Init /\ [][Next]_vars
AllConsumed == IF TLCGet("stats").diameter - 1 = Len(Lines) THEN TRUE
               ELSE PrintT("UNCONSUMED@" \o ToString(TLCGet("stats").diameter) \o "@" \o ToString(Len(Lines))) /\ FALSE
=============================================================================
