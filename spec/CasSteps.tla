------------------------------ MODULE CasSteps ------------------------------
(***************************************************************************)
(* One handle on one database directory, at filesystem-call granularity.   *)
(*                                                                         *)
(* The whole state is ONE record s, and every step of the implementation   *)
(* is a function Eff_<pc>(s) on that record.  This is deliberate: the same *)
(* definitions are used                                                    *)
(*   - as the next-state relation that TLC explores exhaustively (each     *)
(*     step is a separate named action, Crash is enabled between any two), *)
(*   - run to completion (RunOp, PathOf) by the trace specifications that  *)
(*     validate recorded executions of the real code, and by the scenario  *)
(*     generators.                                                         *)
(* One pc value = one filesystem call or one in-memory critical section of *)
(* /repo/src, in the order in which the code performs them (DESIGN.md 1.2).*)
(***************************************************************************)
EXTENDS CasModel

CONSTANT SplitBigRecords   \* FALSE = the code as it is now

(***************************************************************************)
(* State record                                                            *)
(*  config   n (ops per segment the handle is opened with), bigk (keys     *)
(*           whose encoding makes a log record exceed the 8 KiB buffer)    *)
(*  disk     settings stmp snap snapTmp segs cas stg                       *)
(*  memory   open ix lp nv wseg pc op v unref rolled ck* replayed res orph *)
(*  ghost    acked infl used nops crashes                                  *)
(***************************************************************************)
NoSegs == [i \in {} |-> <<>>]

InitState(n, bigk) ==
    [n |-> n, bigk |-> bigk,
     settings |-> NoSettings, stmp |-> "none", snap |-> NoSnap, snapTmp |-> NoSnap,
     segs |-> NoSegs, cas |-> {}, stg |-> 0,
     open |-> FALSE, ix |-> EmptyIx, lp |-> 0, nv |-> 1, wseg |-> -1,
     pc |-> "idle", op |-> NoOp, v |-> 0, unref |-> <<>>, rolled |-> FALSE,
     ckPrev |-> 0, ckRet |-> "idle", replayed |-> 0, res |-> "none", resn |-> 0,
     orph |-> {}, orphStg |-> 0, rdr |-> [i \in {} |-> Absent],
     acked |-> EmptyIdx, infl |-> NoOp, used |-> {}, nops |-> 0, crashes |-> 0]

DiskOf(s) == [settings |-> s.settings, stmp |-> s.stmp, snap |-> s.snap, snapTmp |-> s.snapTmp,
              segs |-> s.segs, cas |-> s.cas, stg |-> s.stg]

WithSeg(segs, id, items) == [i \in DOMAIN segs \cup {id} |-> IF i = id THEN items ELSE segs[i]]
WithoutSeg(segs, id)     == [i \in DOMAIN segs \ {id} |-> segs[i]]

\* A record larger than the 8 KiB buffer.  Before the repair of finding F1 (one write_all per record,
\* "fix:" commit in /repo) such a record reached the file as two writes, header then payload; the
\* split is kept as an option of the model (SplitBigRecords) so that the defect stays demonstrable.
IsBig(s, lop) == SplitBigRecords /\ (IF lop.op = "put" THEN lop.k \in s.bigk
                 ELSE \E i \in 1..Len(lop.ks) : lop.ks[i] \in s.bigk)

(***************************************************************************)
(* User-level operations and their first step.                             *)
(*   put/abort k c | del k | delr lo hi (bounds <<kind, key>>, kind        *)
(*   "U"nbounded, "I"ncluded, e"X"cluded) | ckpt | reopen | open | cleanup *)
(***************************************************************************)
InLo(k, lo) == CASE lo[1] = "U" -> TRUE [] lo[1] = "I" -> k >= lo[2] [] OTHER -> k > lo[2]
InHi(k, hi) == CASE hi[1] = "U" -> TRUE [] hi[1] = "I" -> k <= hi[2] [] OTHER -> k < hi[2]
KeysInRange(idx, lo, hi) ==
    LET S == {k \in Keys : idx[k] # Absent /\ InLo(k, lo) /\ InHi(k, hi)} IN SortedIds(S)

Begin(s, uop) ==
    LET s0 == [s EXCEPT !.op = uop, !.nops = @ + 1, !.res = "none", !.resn = 0] IN
    CASE uop.op = "put"   -> [s0 EXCEPT !.pc = "tx_begin", !.infl = PutOp(uop.k, uop.c)]
      [] uop.op = "abort" -> [s0 EXCEPT !.pc = "ab_begin"]
      [] uop.op = "del"   ->
            IF s.ix.idx[uop.k] = Absent THEN [s0 EXCEPT !.pc = "ret", !.res = "false"]
            ELSE [s0 EXCEPT !.pc = "wal_alloc", !.infl = RmOp(<<uop.k>>), !.res = "true"]
      [] uop.op = "delr"  ->
            LET ks == KeysInRange(s.ix.idx, uop.lo, uop.hi) IN
            IF ks = <<>> THEN [s0 EXCEPT !.pc = "ret", !.res = "count", !.resn = 0]
            ELSE [s0 EXCEPT !.pc = "wal_alloc", !.infl = RmOp(ks), !.res = "count", !.resn = Len(ks)]
      [] uop.op = "ckpt"  -> [s0 EXCEPT !.pc = "ck_begin", !.ckRet = "ret"]
      [] uop.op = "reopen" -> [s0 EXCEPT !.pc = "cl_sync"]
      [] uop.op = "open"  -> [s0 EXCEPT !.pc = "op_lock"]
      [] uop.op = "cleanup" -> [s0 EXCEPT !.pc = "cu_orphan"]
      [] uop.op = "close" -> [s0 EXCEPT !.pc = "cl_sync"]
      \* C06: a reader keeps the open file of the content the key held when get_reader returned, whatever
      \* happens to the key afterwards (overwrite, removal, reopen); it is drained later
      [] uop.op = "rdopen" ->
            IF s.ix.idx[uop.k] = Absent THEN [s0 EXCEPT !.pc = "ret", !.res = Absent]
            ELSE [s0 EXCEPT !.pc = "ret", !.res = "ok", !.rdr = (uop.id :> s.ix.idx[uop.k]) @@ @]
      [] uop.op = "rddrain" ->
            [s0 EXCEPT !.pc = "ret", !.res = IF uop.id \in DOMAIN s.rdr THEN s.rdr[uop.id] ELSE Absent,
                       !.rdr = [i \in DOMAIN s.rdr \ {uop.id} |-> s.rdr[i]]]

(***************************************************************************)
(* Checkpoint entry: WalManager::compute_checkpoint_target +               *)
(* Index::checkpoint_inner step 2 (last_persisted_version is set BEFORE    *)
(* the snapshot is saved).                                                 *)
(***************************************************************************)
CkBegin(s, reason) ==
    LET should == CASE reason = "rollover" -> IF s.lp = 0 THEN s.nv > 1 ELSE s.nv > s.lp + 1
                    [] OTHER -> TRUE
        target == s.nv - 1
    IN  IF ~should \/ target = 0 THEN [s EXCEPT !.pc = s.ckRet]
        ELSE [s EXCEPT !.ckPrev = s.lp, !.lp = target, !.pc = "ck_tmp_create"]

StaleSegs(s) == {id \in DOMAIN s.segs : id < SegOf(s.lp, s.n)}

VolatileReset(s) ==
    [s EXCEPT !.open = FALSE, !.ix = EmptyIx, !.lp = 0, !.nv = 1, !.wseg = -1, !.v = 0,
              !.unref = <<>>, !.rolled = FALSE, !.ckPrev = 0, !.ckRet = "idle", !.replayed = 0,
              !.orph = {}, !.orphStg = 0]

(***************************************************************************)
(* The step function.  Defined for every pc except "idle".                 *)
(***************************************************************************)
Step(s) ==
    CASE
    (************************* Transaction::new .. finish *****************)
       s.pc = "tx_begin"     -> [s EXCEPT !.stg = @ + 1, !.pc = "tx_write"]        \* open(O_CREAT|O_EXCL) in staging/
    [] s.pc = "tx_write"     -> [s EXCEPT !.pc = "fin_flush"]                      \* write()s of chunks >= 8 KiB (content only)
    [] s.pc = "fin_flush"    -> [s EXCEPT !.pc = "fin_sync"]                       \* BufWriter::into_inner: write() of the rest
    [] s.pc = "fin_sync"     -> [s EXCEPT !.pc = "fin_register"]                   \* fdatasync(staged) (Sync) / hand-off (Async)
    [] s.pc = "fin_register" -> [s EXCEPT !.pc = "fin_mkdir"]                      \* register_intent (memory)
    [] s.pc = "fin_mkdir"    -> [s EXCEPT !.pc = "fin_rename"]                     \* mkdir cas/hh, cas/hh/hh
    [] s.pc = "fin_rename"   -> [s EXCEPT !.stg = @ - 1, !.cas = @ \cup {s.op.c}, !.pc = "wal_alloc"]
    (************************* WalManager::append_op **********************)
    [] s.pc = "wal_alloc"    ->
            LET v      == s.nv
                preSeg == IF s.nv = 1 THEN 0 ELSE SegOf(s.nv - 1, s.n)
                tgt    == SegOf(v, s.n)
            IN  [s EXCEPT !.v = v, !.nv = @ + 1, !.rolled = (preSeg # tgt),
                          !.pc = IF s.wseg = tgt THEN "wal_write"
                                 ELSE IF s.wseg # -1 THEN "wal_seal_write" ELSE "wal_open_new"]
    [] s.pc = "wal_seal_write" -> [s EXCEPT !.segs = WithSeg(@, s.wseg, Append(s.segs[s.wseg], Sent)),
                                            !.pc = "wal_seal_sync"]                \* write(44 zero bytes)
    [] s.pc = "wal_seal_sync"  -> [s EXCEPT !.wseg = -1, !.pc = "wal_open_new"]    \* fdatasync(old segment)
    [] s.pc = "wal_open_new" ->
            LET tgt == SegOf(s.v, s.n) IN                                          \* open(O_CREAT|O_APPEND)
            [s EXCEPT !.segs = IF tgt \in DOMAIN s.segs THEN @ ELSE WithSeg(@, tgt, <<>>),
                      !.wseg = tgt, !.pc = "wal_write"]
    [] s.pc = "wal_write"    ->
            IF IsBig(s, s.infl)
            THEN [s EXCEPT !.segs = WithSeg(@, s.wseg, Append(s.segs[s.wseg], Hdr(s.v))),
                           !.used = @ \cup {s.v}, !.pc = "wal_write_payload"]      \* write(header) alone
            ELSE [s EXCEPT !.segs = WithSeg(@, s.wseg, Append(s.segs[s.wseg], Rec(s.v, s.infl))),
                           !.used = @ \cup {s.v}, !.pc = "wal_sync"]               \* one write(header+payload)
    [] s.pc = "wal_write_payload" ->
            LET items == s.segs[s.wseg] IN
            [s EXCEPT !.segs = WithSeg(@, s.wseg, [items EXCEPT ![Len(items)] = Rec(s.v, s.infl)]),
                      !.pc = "wal_sync"]                                           \* write(payload)
    [] s.pc = "wal_sync"     -> [s EXCEPT !.pc = "apply_mem"]                      \* fdatasync(segment)
    (************************* apply + reclamation ************************)
    [] s.pc = "apply_mem"    -> LET x == ApplyOp(s.ix, s.infl) IN
                                [s EXCEPT !.ix = x, !.unref = x.unref, !.pc = "unlink"]
    [] s.pc = "unlink"       ->
            IF s.unref # <<>>
            THEN [s EXCEPT !.cas = @ \ {Head(s.unref)}, !.unref = Tail(@)]         \* unlink(blob), ENOENT tolerated
            ELSE IF s.rolled THEN CkBegin([s EXCEPT !.ckRet = "ret"], "rollover")
            ELSE [s EXCEPT !.pc = "ret"]
    (************************* checkpoint *********************************)
    [] s.pc = "ck_begin"     -> CkBegin(s, "explicit")
    [] s.pc = "ck_tmp_create" -> [s EXCEPT !.snapTmp = EmptySnap, !.pc = "ck_tmp_write"]   \* open(index.tmp, O_CREAT|O_TRUNC)
    [] s.pc = "ck_tmp_write" -> [s EXCEPT !.snapTmp = FullSnap(s.lp, s.ix.idx), !.pc = "ck_tmp_sync"]
    [] s.pc = "ck_tmp_sync"  -> [s EXCEPT !.pc = "ck_rename"]                      \* fdatasync(index.tmp)
    [] s.pc = "ck_rename"    -> [s EXCEPT !.snap = s.snapTmp, !.snapTmp = NoSnap,
                                          !.pc = IF s.ckPrev # 0 /\ s.lp <= s.ckPrev THEN s.ckRet ELSE "ck_prune"]
    [] s.pc = "ck_prune"     ->
            IF StaleSegs(s) = {} THEN [s EXCEPT !.pc = s.ckRet]
            ELSE LET id == CHOOSE id \in StaleSegs(s) : \A j \in StaleSegs(s) : id <= j IN
                 [s EXCEPT !.segs = WithoutSeg(@, id)]                             \* unlink(segment)
    (************************* aborted transaction ************************)
    [] s.pc = "ab_begin"     -> [s EXCEPT !.stg = @ + 1, !.pc = "ab_write"]
    [] s.pc = "ab_write"     -> [s EXCEPT !.pc = "ab_unlink"]
    [] s.pc = "ab_unlink"    -> [s EXCEPT !.stg = @ - 1, !.pc = "ab_flush"]        \* NamedTempFile drop: unlink
    [] s.pc = "ab_flush"     -> [s EXCEPT !.pc = "ret"]                            \* BufWriter drop: write() to the unlinked file
    (************************* drop of the handle *************************)
    [] s.pc = "cl_sync"      -> [s EXCEPT !.pc = "cl_done"]                        \* fdatasync(active segment), no sentinel
    [] s.pc = "cl_done"      -> [VolatileReset(s) EXCEPT !.pc = IF s.op.op = "reopen" THEN "op_lock" ELSE "ret"]
    (************************* CasInner::new / Index::load ****************)
    [] s.pc = "op_lock"      -> [s EXCEPT !.pc = "op_flock"]                       \* open(LOCK, O_CREAT|O_TRUNC)
    [] s.pc = "op_flock"     -> [s EXCEPT !.pc = "op_settings"]                    \* flock(LOCK_EX|LOCK_NB)
    [] s.pc = "op_settings"  ->
            IF s.settings.st = "none" THEN [s EXCEPT !.pc = "set_tmp_create"]
            ELSE IF ~SettingsOk(DiskOf(s), s.n) THEN [s EXCEPT !.res = "err", !.pc = "op_fail"]
            ELSE [s EXCEPT !.pc = "op_load"]
    [] s.pc = "set_tmp_create" -> [s EXCEPT !.stmp = "empty", !.pc = "set_tmp_write"]
    [] s.pc = "set_tmp_write"  -> [s EXCEPT !.stmp = "full", !.pc = "set_tmp_sync"]
    [] s.pc = "set_tmp_sync"   -> [s EXCEPT !.pc = "set_rename"]
    [] s.pc = "set_rename"     -> [s EXCEPT !.settings = FullSettings(s.n), !.stmp = "none", !.pc = "op_load"]
    [] s.pc = "op_load"      ->
            LET r == Recover(DiskOf(s), s.n) IN
            IF ~r.ok THEN [s EXCEPT !.res = "err", !.pc = "op_fail"]
            ELSE [s EXCEPT !.ix = [r.ix EXCEPT !.unref = <<>>], !.lp = r.snapVer, !.nv = r.nextVer,
                           !.replayed = r.count, !.pc = "op_ensure"]
    [] s.pc = "op_ensure"    ->
            LET tgt == SegOf(s.nv, s.n) IN
            IF tgt \in DOMAIN s.segs THEN [s EXCEPT !.pc = "op_after_replay"]
            ELSE [s EXCEPT !.segs = WithSeg(@, tgt, <<>>), !.pc = "op_ensure_sync"]  \* File::create
    [] s.pc = "op_ensure_sync" -> [s EXCEPT !.pc = "op_after_replay"]              \* fsync(new segment)
    [] s.pc = "op_after_replay" ->
            IF s.replayed > 0 THEN CkBegin([s EXCEPT !.ckRet = "op_scan"], "afterreplay")
            ELSE [s EXCEPT !.pc = "op_scan"]
    [] s.pc = "op_scan"      -> [s EXCEPT !.open = TRUE, !.orph = s.cas \ Live(s.ix.idx), !.orphStg = s.stg,
                                          !.res = "ok", !.pc = "ret"]              \* read-only scan
    [] s.pc = "op_fail"      -> [VolatileReset(s) EXCEPT !.pc = "ret"]
    (************************* orphan clean-up ****************************)
    [] s.pc = "cu_orphan"    ->
            IF s.orph = {} THEN [s EXCEPT !.pc = "cu_staging"]
            ELSE LET c == CHOOSE c \in s.orph : TRUE IN
                 [s EXCEPT !.orph = @ \ {c},
                           !.cas = IF s.ix.refc[c] = 0 THEN @ \ {c} ELSE @]        \* re-validated, then unlink
    [] s.pc = "cu_staging"   -> [s EXCEPT !.stg = @ - s.orphStg, !.orphStg = 0, !.pc = "ret"]
    (************************* return to the caller ***********************)
    [] s.pc = "ret"          ->
            [s EXCEPT !.pc = "idle",
                      !.acked = IF s.op.op \in {"open", "reopen"} /\ s.open THEN s.ix.idx
                                ELSE MapApply(@, s.infl),
                      !.infl = IF s.op.op \in {"open", "reopen"} /\ ~s.open THEN @ ELSE NoOp]

(***************************************************************************)
(* Run to completion (API-level view) and the disk states passed on the    *)
(* way (for the stutter-insensitive refinement check of recorded runs).    *)
(***************************************************************************)
RECURSIVE Run(_)
Run(s) == IF s.pc = "idle" THEN s ELSE Run(Step(s))
RunOp(s, uop) == Run(Begin(s, uop))

RECURSIVE PathFrom(_, _)
PathFrom(s, acc) ==
    LET d    == DiskOf(s)
        acc2 == IF acc # <<>> /\ acc[Len(acc)] = d THEN acc ELSE Append(acc, d)
    IN  IF s.pc = "idle" THEN acc2 ELSE PathFrom(Step(s), acc2)
DiskPath(s, uop) == PathFrom(Begin(s, uop), <<DiskOf(s)>>)

(***************************************************************************)
(* Environment: process kill.  Completed filesystem calls persist.         *)
(***************************************************************************)
CrashOf(s) == [VolatileReset(s) EXCEPT !.pc = "idle", !.op = NoOp, !.crashes = @ + 1, !.res = "crashed",
                                       !.rdr = [i \in {} |-> Absent]]

(***************************************************************************)
(* Properties, as predicates on a state record.                            *)
(***************************************************************************)
\* C03 (and the disk half of C04): what a recovery of the present disk would show
C03_CrashAtomic(s) ==
    LET r == Recover(DiskOf(s), s.n) IN
    /\ r.ok
    /\ \/ r.idx = s.acked
       \/ s.infl # NoOp /\ r.idx = MapApply(s.acked, s.infl)
    /\ \A k \in Keys : r.idx[k] # Absent => r.idx[k] \in s.cas

\* C20: the bytes on disk, read by an independent reader
C20_DiskWellFormed(s) ==
    /\ \A id \in DOMAIN s.segs : SegmentWellFormed(s.segs[id])
    /\ VersionsIncreasing(s.segs)
    /\ VersionsInRange(s.segs, s.n)
    /\ s.snap.st # "empty"
    /\ RecVersions(s.segs) \subseteq s.used

\* C12: incremental bookkeeping equals the from-scratch definitions
C12_CountsExact(s) ==
    s.open /\ s.pc # "apply_mem" =>
        /\ s.ix.refc = RefCounts(s.ix.idx)
        /\ s.ix.u = UniqueBlobs(s.ix.idx)
        /\ s.ix.b = TotalBytes(s.ix.idx)

Quiescent(s) == s.pc = "idle" /\ s.open

\* C01: the index is the plain ordered map of the acknowledged operations
C01_MapSemantics(s) == Quiescent(s) => s.ix.idx = s.acked

\* C07: exact reclamation (no crash since the last clean-up)
C07_Exact(s) == Quiescent(s) /\ s.crashes = 0 => s.cas = Live(s.ix.idx) /\ s.stg = 0

\* C02 (model level): versions are never reused
C02_VersionsFresh(s) == s.open /\ s.pc \notin {"op_load", "op_lock", "op_flock", "op_settings"} => \A v \in s.used : v < s.nv

=============================================================================
