------------------------------ MODULE CasFault ------------------------------
(***************************************************************************)
(* C14: one filesystem call fails (EIO / ENOSPC, no side effect).          *)
(* FailStep(s) is the state after the call that s.pc names has failed and  *)
(* the code has followed its error path, as the code is written today      *)
(* (after the repair of F2: a failed record write or sync is cut off).     *)
(* Steps that make no filesystem call (wal_alloc, apply_mem, fin_register, *)
(* ret, op_load, ...) cannot fail.                                         *)
(***************************************************************************)
EXTENDS CasSteps

\* the operation returns an error; nothing of it was applied
RetErr(s) == [s EXCEPT !.pc = "idle", !.res = "err", !.infl = NoOp, !.unref = <<>>, !.rolled = FALSE]
\* the operation returns an error AFTER its record was logged and applied in memory
RetErrApplied(s) == [s EXCEPT !.pc = "idle", !.res = "err", !.acked = MapApply(@, s.infl), !.infl = NoOp, !.unref = <<>>, !.rolled = FALSE]
\* a failed open: the handle does not exist
OpenErr(s) == [VolatileReset(s) EXCEPT !.pc = "idle", !.res = "err"]

CanFail(s) == s.pc \in {"tx_begin", "tx_write", "fin_flush", "fin_sync", "fin_mkdir", "fin_rename",
                        "wal_seal_write", "wal_seal_sync", "wal_open_new", "wal_write", "wal_sync", "unlink",
                        "ck_tmp_create", "ck_tmp_write", "ck_tmp_sync", "ck_rename", "ck_prune",
                        "ab_begin", "ab_write", "ab_unlink", "cl_sync",
                        "op_lock", "op_flock", "set_tmp_create", "set_tmp_write", "set_tmp_sync", "set_rename",
                        "op_ensure", "op_ensure_sync", "cu_orphan"}
                /\ (s.pc = "unlink" => s.unref # <<>>)
                /\ (s.pc = "ck_prune" => StaleSegs(s) # {})
                /\ (s.pc = "cu_orphan" => s.orph # {})

\* where a failing checkpoint step returns to: an error for the caller, after the state it leaves behind
CkFail(s, s2) ==
    IF s.ckRet = "op_scan" THEN OpenErr(s2)                       \* AfterReplay checkpoint: the open fails
    ELSE IF s.op.op = "ckpt" THEN RetErr(s2)                        \* explicit checkpoint
    ELSE RetErrApplied(s2)                                          \* rollover checkpoint: the operation itself was applied

FailStep(s) ==
    CASE s.pc = "tx_begin" -> RetErr(s)                                            \* no staging file was created
      [] s.pc \in {"tx_write", "fin_flush", "fin_sync", "fin_mkdir", "fin_rename"} ->
            RetErr([s EXCEPT !.stg = @ - 1])                                       \* Transaction dropped: staging file unlinked
      \* append_op: the version is consumed, the blob (if any) is already in cas/ and stays as an orphan
      [] s.pc = "wal_seal_write" ->     \* into_inner fails; the BufWriter's drop flushes once more (the fault is one-shot)
            RetErr([s EXCEPT !.segs = WithSeg(@, s.wseg, Append(s.segs[s.wseg], Sent)), !.wseg = -1])
      [] s.pc = "wal_seal_sync" -> RetErr([s EXCEPT !.wseg = -1])
      [] s.pc = "wal_open_new"  -> RetErr([s EXCEPT !.wseg = -1])
      [] s.pc = "wal_write"     -> RetErr(s)                                       \* nothing written (partial bytes are cut off)
      [] s.pc = "wal_sync"      -> RetErr([s EXCEPT !.segs = WithSeg(@, s.wseg, SubSeq(s.segs[s.wseg], 1, Len(s.segs[s.wseg]) - 1))])
      [] s.pc = "unlink"        -> RetErrApplied(s)                                \* BlobDeletion error: logged and applied, rest not reclaimed
      \* checkpoint_inner: last_persisted_version was already set (stays set in memory)
      [] s.pc = "ck_tmp_create" -> CkFail(s, s)
      [] s.pc = "ck_tmp_write"  -> CkFail(s, s)                                    \* index.tmp exists, empty
      [] s.pc = "ck_tmp_sync"   -> CkFail(s, s)
      [] s.pc = "ck_rename"     -> CkFail(s, s)                                    \* index.tmp stays
      [] s.pc = "ck_prune"      -> [s EXCEPT !.pc = s.ckRet]                       \* prune errors are ignored; remaining stale segments stay
      [] s.pc = "ab_begin"      -> RetErr(s)
      [] s.pc = "ab_write"      -> RetErr([s EXCEPT !.stg = @ - 1])
      [] s.pc = "ab_unlink"     -> [s EXCEPT !.pc = "ab_flush"]                    \* tempfile ignores the error: the staging file stays
      [] s.pc = "cl_sync"       -> [s EXCEPT !.pc = "cl_done"]                     \* error only logged
      [] s.pc \in {"op_lock", "op_flock", "set_tmp_create", "set_tmp_write", "set_tmp_sync", "set_rename", "op_ensure", "op_ensure_sync"} ->
            OpenErr(s)
      [] s.pc = "cu_orphan"     -> LET c == CHOOSE c \in s.orph : TRUE IN [s EXCEPT !.orph = @ \ {c}]   \* error collected, clean-up goes on
=============================================================================
