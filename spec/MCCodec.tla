------------------------------- MODULE MCCodec -------------------------------
(* Codec at the specification level: decode(encode(v)) = v for all small values, and the decoders *)
(* are total (TLC evaluates them on every byte string up to MaxLen over Alpha).                    *)
EXTENDS Codec
CONSTANTS Alpha, MaxLen, KeyAlpha, MaxKeyLen
VARIABLES b, op

Strings(A, n) == UNION {[1..k -> A] : k \in 0..n}
KeysS == Strings(KeyAlpha, MaxKeyLen)
H32 == {[i \in 1..32 |-> 0], [i \in 1..32 |-> 255], [i \in 1..32 |-> i]}
S8 == {[i \in 1..8 |-> 0], [i \in 1..8 |-> 255], <<0, 1, 0, 0, 0, 0, 0, 0>>}
Ops == {[t |-> "put", key |-> k, hash |-> h, size |-> z, keys |-> <<>>] : k \in KeysS, h \in H32, z \in S8}
  \cup {[t |-> "rm", key |-> <<>>, hash |-> <<>>, size |-> <<>>, keys |-> ks] : ks \in Strings(KeysS, 2)}

Init == b \in Strings(Alpha, MaxLen) /\ op \in Ops
Next == UNCHANGED <<b, op>>
Spec == Init /\ [][Next]_<<b, op>>

Inv_C16_Total == DecOp(b).st \in {"ok", "eof", "short", "tag"} /\ DecSnap(b).st \in {"ok", "eof", "short"}
                 /\ DecSeg(b, 1, <<TRUE, TRUE>>, <<>>).err \in {"", "shortdata", "checksum"}
Inv_C16_RoundTrip == DecOp(EncOp(op)) = [st |-> "ok", op |-> op]
\* a valid encoding followed by anything decodes to the same value (trailing bytes are ignored)
Inv_C16_Prefix == DecOp(EncOp(op) \o b).op = op
Inv_C16_SnapRoundTrip ==
    LET ents == IF op.t = "put" THEN <<[key |-> op.key, hash |-> op.hash, size |-> op.size]>> ELSE <<>>
        r == DecSnap(EncSnap(<<1, 0, 0, 0, 0, 0, 0, 0>>, ents)) IN
    r.st = "ok" /\ r.ents = {ents[i] : i \in 1..Len(ents)}
=============================================================================
