------------------------------- MODULE MCRange -------------------------------
(* The whole (L, start, end) cube as initial states; the property as invariant of the transcription. *)
EXTENDS RangeRead
CONSTANT Lens
VARIABLES L, s, e
Bounds(l) == (0..(l + 2)) \cup {-32, -63, -64}
Init == L \in Lens /\ s \in Bounds(L) /\ e \in Bounds(L)
Next == UNCHANGED <<L, s, e>>
Spec == Init /\ [][Next]_<<L, s, e>>
Inv_C17 == RangeSpecHolds(L, s, e)
=============================================================================
