------------------------------- MODULE TraceLock -------------------------------
(* Validation of recorded multi-process executions against CasLock. *)
EXTENDS CasLock, Json, IOUtils
Lines == ndJsonDeserialize(IOEnv.TRACE)
VARIABLES l, s, sid
FailT(cond, tag) == IF cond THEN {} ELSE {tag}
RECURSIVE JoinTags(_)
JoinTags(S) == IF S = {} THEN "" ELSE LET x == CHOOSE x \in S : TRUE IN x \o ";" \o JoinTags(S \ {x})
Report(tags) == IF tags = {} THEN TRUE ELSE PrintT("FAIL@" \o ToString(l) \o "@" \o ToString(sid) \o "@" \o JoinTags(tags))
Line == Lines[l]
Init == l = 1 /\ s = LockInit /\ sid = ""
OnReset == Line.ev = "reset" /\ s' = LockInit /\ sid' = Line.sid
OnLock == /\ Line.ev = "lock"
          /\ LET r == Act(s, Line.a, Line.h, Line.p) IN
             /\ Report(UNION {
                   FailT(Line.res = r.res, "C11:result-" \o Line.res \o "-expected-" \o r.res),
                   IF Line.a \in {"open", "openstats", "openasync", "openbad", "openalias"} /\ Line.res # "ok"
                   THEN UNION { FailT(Line.muts = 0, "C11:losing-open-made-mutating-calls"),
                                FailT(Line.same, "C11:losing-open-changed-directory") } ELSE {},
                   FailT(OneOwner(r.s) /\ HolderConsistent(r.s), "C11:two-owners") })
             /\ s' = r.s
          /\ UNCHANGED sid
OnRace == /\ Line.ev = "race"
          /\ Report(UNION { FailT(Line.oks = 1, "C11:race-winners-" \o ToString(Line.oks)),
                            FailT(Line.oks + Line.already = Line.n /\ Line.other = 0, "C11:race-loser-error"),
                            FailT(Line.loser_muts = 0, "C11:race-loser-made-mutating-calls") })
          /\ UNCHANGED <<s, sid>>
Next == l <= Len(Lines) /\ l' = l + 1 /\ (OnReset \/ OnLock \/ OnRace)
Spec == Init /\ [][Next]_<<l, s, sid>>
AllConsumed == IF TLCGet("stats").diameter - 1 = Len(Lines) THEN TRUE
               ELSE PrintT("UNCONSUMED@" \o ToString(TLCGet("stats").diameter) \o "@" \o ToString(Len(Lines))) /\ FALSE
=============================================================================
