CONSTANTS
  NK = 2
  SplitBigRecords = FALSE
  MaxOps = 3
  MaxCrashes = 1
  WalN = 2
  BigKeys = {}
  PutContents = {"A", "B"}
  AbortKeys = {1}
  Ranges <- FullRange
SPECIFICATION Spec
INVARIANTS Inv_C01 Inv_C02 Inv_C03 Inv_C07 Inv_C12 Inv_C20 Inv_OpenOk
CHECK_DEADLOCK FALSE
