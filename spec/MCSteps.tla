------------------------------- MODULE MCSteps -------------------------------
(* Exhaustive exploration of CasSteps for small constants: every history of at most MaxOps   *)
(* user operations, with a process kill (Crash) possible between any two steps, also during  *)
(* recovery.  The invariants are the model-level statements of C01 C02 C03 C07 C12 C20.      *)
EXTENDS CasSteps
CONSTANTS MaxOps, MaxCrashes, WalN, BigKeys, PutContents, AbortKeys, Ranges
VARIABLE s

Menu == {[op |-> "put", k |-> k, c |-> c] : k \in Keys, c \in PutContents}
   \cup {[op |-> "abort", k |-> k, c |-> c] : k \in AbortKeys, c \in PutContents}
   \cup {[op |-> "del", k |-> k] : k \in Keys}
   \cup {[op |-> "delr", lo |-> r[1], hi |-> r[2]] : r \in Ranges}
   \cup {[op |-> "ckpt"], [op |-> "reopen"], [op |-> "cleanup"]}

AllRanges == { <<lo, hi>> \in ({<<"U", 0>>} \cup ({"I", "X"} \X Keys)) \X ({<<"U", 0>>} \cup ({"I", "X"} \X Keys)) :
                 \/ lo[1] = "U" \/ hi[1] = "U"
                 \/ lo[2] < hi[2]
                 \/ lo[2] = hi[2] /\ ~(lo[1] = "X" /\ hi[1] = "X") }
FullRange == { << <<"U", 0>>, <<"U", 0>> >> }

Init == s = InitState(WalN, BigKeys)

StartOp   == s.pc = "idle" /\ s.open /\ s.nops < MaxOps /\ \E u \in Menu : s' = Begin(s, u)
StartOpen == s.pc = "idle" /\ ~s.open /\ s' = [Begin(s, [op |-> "open"]) EXCEPT !.nops = s.nops]
At(pcs)   == s.pc \in pcs /\ s' = Step(s)

TxSteps    == At({"tx_begin", "tx_write", "fin_flush", "fin_sync", "fin_register", "fin_mkdir", "fin_rename"})
WalSteps   == At({"wal_alloc", "wal_seal_write", "wal_seal_sync", "wal_open_new", "wal_write", "wal_write_payload", "wal_sync"})
ApplySteps == At({"apply_mem", "unlink"})
CkptSteps  == At({"ck_begin", "ck_tmp_create", "ck_tmp_write", "ck_tmp_sync", "ck_rename", "ck_prune"})
AbortSteps == At({"ab_begin", "ab_write", "ab_unlink", "ab_flush"})
CloseSteps == At({"cl_sync", "cl_done"})
OpenSteps  == At({"op_lock", "op_flock", "op_settings", "set_tmp_create", "set_tmp_write", "set_tmp_sync",
                  "set_rename", "op_load", "op_ensure", "op_ensure_sync", "op_after_replay", "op_scan", "op_fail"})
CleanSteps == At({"cu_orphan", "cu_staging"})
Return     == At({"ret"})
\* read_dir order is arbitrary: stale segments may be unlinked in any order
PruneAny   == s.pc = "ck_prune" /\ \E id \in StaleSegs(s) : s' = [s EXCEPT !.segs = WithoutSeg(@, id)]
Crash      == s.crashes < MaxCrashes /\ (s.pc # "idle" \/ s.open) /\ s' = CrashOf(s)

Next == StartOp \/ StartOpen \/ TxSteps \/ WalSteps \/ ApplySteps \/ CkptSteps \/ AbortSteps \/ CloseSteps
        \/ OpenSteps \/ CleanSteps \/ Return \/ PruneAny \/ Crash

Spec == Init /\ [][Next]_s

(* Liveness of recovery (growth beyond the listed safety properties; serves C03 "a crash at any instant ... the next   *)
(* open succeeds" and C14 "never hangs"): the environment may kill the process MaxCrashes times, at any step, also in *)
(* the middle of a recovery that a previous kill made necessary; under weak fairness of the steps of the code itself  *)
(* (the kills are not fair: they need not happen) every operation and every open returns, i.e. the control state is   *)
(* "idle" again and again, and a store that was open when it was killed is open again.                                *)
CodeNext == StartOp \/ StartOpen \/ TxSteps \/ WalSteps \/ ApplySteps \/ CkptSteps \/ AbortSteps \/ CloseSteps
            \/ OpenSteps \/ CleanSteps \/ Return \/ PruneAny
FairSpec == Spec /\ WF_s(CodeNext)
Live_Returns == []<>(s.pc = "idle")
Live_Reopens == []((~s.open /\ s.pc = "idle") => <>(s.open /\ s.pc = "idle"))

Inv_C01 == C01_MapSemantics(s)
Inv_C02 == C02_VersionsFresh(s)
Inv_C03 == C03_CrashAtomic(s)
Inv_C07 == C07_Exact(s)
Inv_C12 == C12_CountsExact(s)
Inv_C20 == C20_DiskWellFormed(s)
\* open never fails on a disk the code itself produced
Inv_OpenOk == s.res # "err"
=============================================================================
