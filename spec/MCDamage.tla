------------------------------- MODULE MCDamage -------------------------------
(* Every history (with crashes, so that two un-checkpointed segments occur), then the store is     *)
(* closed, ONE damage is applied to an un-checkpointed item, and the store is opened again.          *)
EXTENDS CasDamage
CONSTANTS MaxOps, MaxCrashes, WalN, PutContents, ExcuseF7,
          ContinueAfterDamage   \* TRUE: the store is used after the damaged directory was accepted (observation F8, beyond C10)
VARIABLES s, dm      \* dm: [on, base (disk before the damage), f7]

Menu == {[op |-> "put", k |-> k, c |-> c] : k \in Keys, c \in PutContents}
   \cup {[op |-> "del", k |-> k] : k \in Keys}
   \cup {[op |-> "delr", lo |-> <<"U", 0>>, hi |-> <<"U", 0>>], [op |-> "ckpt"], [op |-> "close"]}

Init == s = InitState(WalN, {}) /\ dm = [on |-> FALSE, base |-> DiskOf(InitState(WalN, {})), f7 |-> FALSE]
StartOp   == s.pc = "idle" /\ s.open /\ (~dm.on \/ ContinueAfterDamage) /\ s.nops < MaxOps /\ \E u \in Menu : s' = Begin(s, u) /\ dm' = dm
StartOpen == s.pc = "idle" /\ ~s.open /\ s' = [Begin(s, [op |-> "open"]) EXCEPT !.nops = s.nops] /\ dm' = dm
DoStep    == s.pc # "idle" /\ s' = Step(s) /\ dm' = dm
Crash     == ~dm.on /\ s.crashes < MaxCrashes /\ s.pc # "idle" /\ s' = CrashOf(s) /\ dm' = dm
Damage    == /\ s.pc = "idle" /\ ~s.open /\ ~dm.on /\ s.settings.st = "full"
             /\ \E id \in DOMAIN s.segs, kind \in DamageKinds :
                  \E i \in 1..Len(s.segs[id]) :
                     /\ s.segs[id][i].t = "rec" /\ s.segs[id][i].v > s.snap.ver
                     /\ s' = [s EXCEPT !.segs = WithSeg(@, id, Damaged(s.segs[id], i, kind)), !.infl = NoOp]
                     /\ dm' = [on |-> TRUE, base |-> DiskOf(s), f7 |-> IsF7(DiskOf(s), id, kind)]
Next == StartOp \/ StartOpen \/ DoStep \/ Crash \/ Damage
Spec == Init /\ [][Next]_<<s, dm>>

\* after the damage, the first completed open: an error, or exactly the prefix state
\* (pc = "op_ensure": Index::load has just succeeded on the damaged directory, nothing was written yet)
Inv_C10 == (dm.on /\ s.pc = "op_ensure" /\ ~(ExcuseF7 /\ dm.f7)) => s.ix.idx = PrefixState(dm.base, DiskOf(s))
\* BEYOND C10 (observation F8): after a damaged directory was ACCEPTED, what the store acknowledges must survive a kill
\* or restart like anything else.  It does not: a cut inside a record header is a clean end for the reader, the next record
\* is appended BEHIND the torn bytes, and the reader of the next session stops in front of it (the model's ReadSeg; the
\* real reader, fed the torn bytes glued to the new header, fails or silently ends).  Checked with ContinueAfterDamage =
\* TRUE; TLC's counterexample is the model-level form of the recorded cases that `check C10` prints as a NOTE.
Inv_Beyond_UsableAfterAcceptedDamage == (dm.on /\ s.pc = "idle" /\ s.open) => C03_CrashAtomic(s)
=============================================================================
