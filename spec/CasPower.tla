------------------------------ MODULE CasPower ------------------------------
(***************************************************************************)
(* C09: power loss.  On top of CasSteps, d records for every file what an   *)
(* explicit sync has made durable.  "Every byte not yet covered by an       *)
(* explicit sync of its file is lost; directory operations persist in issue *)
(* order": a power-loss image of the disk is obtained by choosing, for      *)
(* every file that has unsynced bytes, whether it falls back to its durable *)
(* content.  DurStep follows the syncs of the code step by step (it is      *)
(* derived from the pc of the step just taken, Step itself is untouched).   *)
(***************************************************************************)
EXTENDS CasSteps

CONSTANT SyncStaged   \* TRUE: SyncMode::Sync (the staged blob is fdatasync'ed before the rename)

DurInit == [seg |-> [i \in {} |-> 0],       \* durable length (items) per segment file
            snap |-> NoSnap, snapTmp |-> NoSnap, settings |-> NoSettings, stmp |-> "none",
            stgSynced |-> FALSE,
            lost |-> {}]                    \* contents whose blob file was renamed into cas/ with unsynced bytes

SegLen(s, id) == IF id \in DOMAIN s.segs THEN Len(s.segs[id]) ELSE 0
Restrict(f, S) == [i \in S |-> f[i]]

\* d' after the step s -> s2 (s.pc names the call that was just made)
DurStep(d, s, s2) ==
    LET p == s.pc
        \* files that appeared / disappeared
        d0 == [d EXCEPT !.seg = [i \in DOMAIN s2.segs |-> IF i \in DOMAIN d.seg THEN d.seg[i] ELSE 0]]
    IN
    CASE p = "tx_begin"  -> [d0 EXCEPT !.stgSynced = FALSE]
      [] p = "ab_begin"  -> [d0 EXCEPT !.stgSynced = FALSE]
      [] p = "fin_sync"  -> [d0 EXCEPT !.stgSynced = SyncStaged]
      [] p = "fin_rename" -> [d0 EXCEPT !.lost = IF d.stgSynced \/ SizeOf[s.op.c] = 0 THEN @ \ {s.op.c} ELSE @ \cup {s.op.c}]
      [] p = "unlink" /\ s.unref # <<>> -> [d0 EXCEPT !.lost = @ \ {Head(s.unref)}]
      [] p = "cu_orphan" -> [d0 EXCEPT !.lost = @ \cap s2.cas]
      [] p \in {"wal_seal_sync", "wal_sync", "cl_sync"} ->
            IF s.wseg # -1 /\ s.wseg \in DOMAIN s2.segs THEN [d0 EXCEPT !.seg[s.wseg] = Len(s2.segs[s.wseg])] ELSE d0
      [] p = "op_ensure_sync" -> [d0 EXCEPT !.seg = [i \in DOMAIN s2.segs |-> IF i = SegOf(s.nv, s.n) THEN Len(s2.segs[i]) ELSE d0.seg[i]]]
      [] p = "ck_tmp_create" -> [d0 EXCEPT !.snapTmp = EmptySnap]       \* O_TRUNC: the old bytes are gone, the new ones not yet there
      [] p = "ck_tmp_sync"   -> [d0 EXCEPT !.snapTmp = s2.snapTmp]
      [] p = "ck_rename"     -> [d0 EXCEPT !.snap = d.snapTmp, !.snapTmp = NoSnap]
      [] p = "set_tmp_create" -> [d0 EXCEPT !.stmp = "empty"]
      [] p = "set_tmp_sync"   -> [d0 EXCEPT !.stmp = s2.stmp]
      [] p = "set_rename"     -> [d0 EXCEPT !.settings = IF d.stmp = "full" THEN s2.settings ELSE [st |-> "undec", ver |-> 0, n |-> 0], !.stmp = "none"]
      [] OTHER -> d0

\* files that currently hold bytes no sync has covered
Unsynced(s, d) ==
    {<<"seg", i>> : i \in {j \in DOMAIN s.segs : d.seg[j] < Len(s.segs[j])}}
    \cup (IF s.snap # d.snap THEN {<<"snap", 0>>} ELSE {})
    \cup (IF s.snapTmp # d.snapTmp THEN {<<"snapTmp", 0>>} ELSE {})
    \cup (IF s.settings # d.settings THEN {<<"settings", 0>>} ELSE {})
    \cup {<<"blob", c>> : c \in d.lost \cap s.cas}

\* the state as it is after a power loss in which exactly the files in F lose their unsynced bytes
LossState(s, d, F) ==
    [s EXCEPT !.segs = [i \in DOMAIN s.segs |-> IF <<"seg", i>> \in F THEN SubSeq(s.segs[i], 1, d.seg[i]) ELSE s.segs[i]],
              !.snap = IF <<"snap", 0>> \in F THEN d.snap ELSE @,
              !.snapTmp = IF <<"snapTmp", 0>> \in F THEN d.snapTmp ELSE @,
              !.settings = IF <<"settings", 0>> \in F THEN d.settings ELSE @,
              !.cas = @ \ {c \in AllContents : <<"blob", c>> \in F}]     \* the file exists but its bytes are gone: as good as missing

\* C09: C03 must hold for every loss set (an undecodable settings file makes the next open fail)
C09_PowerSafe(s, d) ==
    \A F \in SUBSET Unsynced(s, d) :
        LET ls == LossState(s, d, F) IN
        ls.settings.st \in {"none", "full"} /\ C03_CrashAtomic(ls)
=============================================================================
