CONSTANTS
  NK = 4
SPECIFICATION Spec
POSTCONDITION AllConsumed
CHECK_DEADLOCK FALSE
