CONSTANTS
  NK = 4
  SplitBigRecords = FALSE
SPECIFICATION Spec
POSTCONDITION AllConsumed
CHECK_DEADLOCK FALSE
