------------------------------ MODULE CasConc ------------------------------
(***************************************************************************)
(* Threads, the three index locks, the pending-intent table and the blob   *)
(* directory.  One step of a thread = the code between two yield points of *)
(* the `verif` feature (/repo/src/verif.rs): every acquisition of          *)
(* pending_intents (I), of the state RwLock (Sw/Sr) and of the WAL mutex   *)
(* (W), and every rename/unlink/open of a blob (F).  The WAL append, the   *)
(* in-memory apply and the snapshot happen entirely under the state and    *)
(* WAL locks.  The durable side is part of the state: dlog is the log as a *)
(* process kill would leave it, dsnap the last snapshot.  The append of a  *)
(* record (W:apply) and the in-memory apply (M:apply) are separate steps - *)
(* no other thread can get between them (both locks are held), but a kill  *)
(* can - so that C03x_KillSafe speaks about the instant in between.  The   *)
(* code has no yield point there: a recorded step from W:apply is the two  *)
(* model steps together (StepObs).  The inner steps of a checkpoint are    *)
(* CasSteps' subject; here a checkpoint is one step.                       *)
(*                                                                         *)
(* The whole state is one record (as in CasSteps) so that StepT can be     *)
(* used both as TLC's next-state relation and by TraceConc, which replays  *)
(* recorded schedules of the real threads through it.                      *)
(***************************************************************************)
EXTENDS CasModel

CONSTANTS IntentsPerHash,   \* FALSE: one intent slot per key (the code as found, finding F3); TRUE: in-flight commits protect hashes by count
          OpenUnderGuard    \* FALSE: a read opens the blob after releasing the index read lock (as found, finding F4)

InLoC(k, lo) == CASE lo[1] = "U" -> TRUE [] lo[1] = "I" -> k >= lo[2] [] OTHER -> k > lo[2]
InHiC(k, hi) == CASE hi[1] = "U" -> TRUE [] hi[1] = "I" -> k <= hi[2] [] OTHER -> k < hi[2]
KeysInRangeC(idx, lo, hi) == SortedIds({k \in Keys : idx[k] # Absent /\ InLoC(k, lo) /\ InHiC(k, hi)})
SeqToSetC(q) == {q[i] : i \in 1..Len(q)}

NoTh == [pc |-> "done", opi |-> 1, k |-> 0, c |-> Absent, keys |-> <<>>, unref |-> <<>>, rolled |-> FALSE,
         item |-> Absent, oi |-> 0, res |-> "none", resn |-> 0, seen |-> {}, failed |-> FALSE, repl |-> Absent]

ConcInit(n, idx, cas, nv, orph, progs) ==
    [n |-> n, idx |-> idx, intents |-> [k \in Keys |-> Absent], icount |-> [c \in AllContents |-> 0],
     cas |-> cas, nv |-> nv, lp |-> nv - 1,
     dlog |-> <<>>, dsnap |-> [ver |-> nv - 1, idx |-> idx],
     lkI |-> 0, lkS |-> 0, lkW |-> 0, rd |-> {}, ug |-> {}, wq |-> {}, orph |-> orph, prog |-> progs,
     th |-> [t \in DOMAIN progs |-> [NoTh EXCEPT !.pc = IF progs[t] = <<>> THEN "done" ELSE "call"]],
     edges |-> {}]

Threads(s) == DOMAIN s.prog
CurOp(s, t) == s.prog[t][s.th[t].opi]
Active(s, t) == s.th[t].pc \notin {"call", "done"}

\* which lock the step at point p needs
NeedsI(p) == p \in {"I:register", "I:put", "I:rm", "I:orphan", "I:intent_drop"}
NeedsSw(p) == p \in {"Sw:apply", "Sw:roll", "Sw:ckpt"}
NeedsSr(p) == p = "Sr:read"
NeedsW(p) == p \in {"W:apply", "W:roll", "W:ckpt"}
\* the log record of the write operation thread t is committing
LopOf(s, t) == IF s.prog[t][s.th[t].opi].op \in {"put", "txfinish"} THEN PutOp(s.th[t].k, s.th[t].c) ELSE RmOp(s.th[t].keys)

Enabled(s, t) ==
    LET p == s.th[t].pc IN
    /\ p # "done"
    /\ NeedsI(p) => s.lkI = 0
    /\ NeedsSw(p) => s.lkS = 0 /\ s.rd = {} /\ s.ug = {}
    /\ NeedsSr(p) => s.lkS = 0 /\ s.wq = {}          \* task-fair RwLock: a queued writer blocks new readers
    /\ NeedsW(p) => s.lkW = 0

\* thread t reaches state.write() while the lock is busy: it queues
CanQueue(s, t) == NeedsSw(s.th[t].pc) /\ ~(s.lkS = 0 /\ s.rd = {} /\ s.ug = {}) /\ t \notin s.wq
Queue(s, t) == [s EXCEPT !.wq = @ \cup {t}]

Held(s, t) == (IF s.lkI = t THEN {"I"} ELSE {}) \cup (IF s.lkS = t THEN {"S"} ELSE {}) \cup (IF s.lkW = t THEN {"W"} ELSE {})
LockOf(p) == IF NeedsI(p) THEN "I" ELSE IF NeedsSw(p) \/ NeedsSr(p) THEN "S" ELSE IF NeedsW(p) THEN "W" ELSE "-"

\* return from the current operation with result r
Ret(s, t, r, rn) ==
    LET more == s.th[t].opi < Len(s.prog[t]) IN
    [s EXCEPT !.th[t] = [@ EXCEPT !.pc = IF more THEN "call" ELSE "done", !.opi = IF more THEN @ + 1 ELSE @,
                                  !.res = r, !.resn = rn, !.unref = <<>>, !.keys = <<>>, !.rolled = FALSE]]

At(s, t, p) == [s EXCEPT !.th[t].pc = p]

\* hashes protected by intents
Protected(s) == IF IntentsPerHash THEN {c \in AllContents : s.icount[c] > 0}
                ELSE Range(s.intents) \ {Absent}

\* after an apply changed the index: every active thread that is working on a key sees the new value
Witness(s) ==
    [s EXCEPT !.th = [t \in Threads(s) |->
        IF Active(s, t) /\ s.th[t].k # 0 THEN [s.th[t] EXCEPT !.seen = @ \cup {s.idx[s.th[t].k]}] ELSE s.th[t]]]

NextOrphan(s, t, deleted) ==
    \* the intents lock was released; go to the next listed orphan or finish the clean-up
    LET op == CurOp(s, t) IN
    IF op.op = "cleanone" THEN Ret(s, t, IF deleted THEN "true" ELSE "false", 0)
    ELSE IF s.th[t].oi >= Len(s.orph) THEN Ret(s, t, "ok", 0)
    ELSE [s EXCEPT !.th[t] = [@ EXCEPT !.oi = @ + 1, !.pc = "I:orphan", !.c = s.orph[s.th[t].oi + 1]]]

StepT(s, t) ==
    LET me == s.th[t]
        p  == me.pc
        s1 == [s EXCEPT !.edges = IF LockOf(p) = "-" THEN @ ELSE @ \cup {<<h, LockOf(p)>> : h \in Held(s, t)}]
    IN
    CASE p = "call" ->
            LET op == CurOp(s, t)
                k  == IF "k" \in DOMAIN op THEN op.k ELSE 0
                s2 == [s1 EXCEPT !.th[t] = [@ EXCEPT !.k = k, !.c = IF "c" \in DOMAIN op THEN op.c ELSE Absent,
                                                     !.seen = IF k = 0 THEN {} ELSE {s.idx[k]}, !.res = "none"]]
            IN (CASE op.op \in {"put", "txfinish", "putfail"} -> At(s2, t, "staged")
                 \* an aborted transaction, and the beginning of one that stays open, touch nothing shared
                 [] op.op \in {"abort", "txbegin", "txabort"} -> Ret(s2, t, "ok", 0)
                 [] op.op \in {"get", "size", "range", "reader", "del", "delr", "guard"} -> At(s2, t, "Sr:read")
                 [] op.op = "unguard" -> Ret([s2 EXCEPT !.ug = @ \ {t}], t, "ok", 0)
                 [] op.op = "ckpt" -> At(s2, t, "Sw:ckpt")
                 [] op.op \in {"cleanup", "quarantine"} ->
                        IF s.orph = <<>> THEN Ret(s2, t, "ok", 0)
                        ELSE [s2 EXCEPT !.th[t] = [@ EXCEPT !.oi = 1, !.c = s.orph[1], !.pc = "I:orphan"]]
                 [] op.op = "cleanone" ->
                        IF \E i \in 1..Len(s.orph) : s.orph[i] = op.c
                        THEN [s2 EXCEPT !.th[t] = [@ EXCEPT !.oi = 1, !.c = op.c, !.pc = "I:orphan"]]
                        ELSE Ret(s2, t, "false", 0))
      [] p = "staged" -> At(s1, t, "I:register")
      [] p = "I:register" ->      \* lock, remember replaced, insert, unlock
            At([s1 EXCEPT !.intents[me.k] = me.c, !.icount[me.c] = @ + 1, !.th[t].repl = s.intents[me.k]], t, "F:rename")
      \* "putfail": a commit whose rename into cas/ fails (fault x concurrency): nothing reaches cas/, the IntentGuard is dropped
      [] p = "F:rename" -> IF CurOp(s, t).op = "putfail" THEN At(s1, t, "I:intent_drop")
                           ELSE At([s1 EXCEPT !.cas = @ \cup {me.c}], t, "I:put")
      \* IntentGuard::drop of a commit that was not applied: its protection is given back (one count of its hash, nothing of
      \* anybody else's), the key's slot is restored to what it replaced if it still holds this commit's hash
      [] p = "I:intent_drop" ->
            LET own  == s.intents[me.k] = me.c
                ints == IF own THEN [s.intents EXCEPT ![me.k] = me.repl] ELSE s.intents
            IN Ret([s1 EXCEPT !.intents = ints, !.icount[me.c] = @ - 1], t, "failed", 0)
      [] p \in {"I:put", "I:rm"} -> At([s1 EXCEPT !.lkI = t], t, "Sw:apply")
      [] p = "Sw:apply" -> At([s1 EXCEPT !.lkS = t, !.wq = @ \ {t}], t, "W:apply")
      [] p = "W:apply" ->         \* WalManager::append_op: the record is durable when this step ends
            At([s1 EXCEPT !.dlog = Append(@, Rec(s.nv, LopOf(s, t))), !.lkW = t], t, "M:apply")
      [] p = "M:apply" ->         \* IndexState::apply_logical_op, the intent bookkeeping and the reclamation filter
            LET isPut  == CurOp(s, t).op \in {"put", "txfinish"}
                lop    == LopOf(s, t)
                x      == ApplyOp(IxOf(s.idx), lop)
                preSeg == IF s.nv = 1 THEN 0 ELSE SegOf(s.nv - 1, s.n)
                rolled == preSeg # SegOf(s.nv, s.n)
                \* one slot per key: the slot is cleared whatever it holds; per-hash protection: the key entry
                \* is removed only if it is still this commit's own
                ints   == IF isPut /\ (~IntentsPerHash \/ s.intents[me.k] = me.c)
                          THEN [s.intents EXCEPT ![me.k] = Absent] ELSE s.intents
                icnt   == IF isPut THEN [s.icount EXCEPT ![me.c] = @ - 1] ELSE s.icount
                s2     == [s1 EXCEPT !.idx = x.idx, !.nv = @ + 1, !.intents = ints, !.icount = icnt, !.lkS = 0, !.lkW = 0]
                keep   == SelectSeq(x.unref, LAMBDA h : h \notin Protected(s2))
                s3     == Witness([s2 EXCEPT !.th[t] = [@ EXCEPT !.unref = keep, !.rolled = rolled]])
            IN  IF keep = <<>> THEN At([s3 EXCEPT !.lkI = 0], t, "unlocked") ELSE At(s3, t, "F:unlink")
      [] p = "F:unlink" ->
            LET s2 == [s1 EXCEPT !.cas = @ \ {Head(me.unref)}, !.th[t].unref = Tail(@)] IN
            IF Tail(me.unref) = <<>> THEN At([s2 EXCEPT !.lkI = 0], t, "unlocked") ELSE s2
      [] p = "unlocked" ->
            IF me.rolled THEN At(s1, t, "Sw:roll")
            ELSE LET op == CurOp(s, t) IN
                 Ret(s1, t, IF op.op \in {"put", "txfinish"} THEN "ok" ELSE IF op.op = "del" THEN "true" ELSE "count", Len(me.keys))
      [] p \in {"Sw:roll", "Sw:ckpt"} -> At([s1 EXCEPT !.lkS = t, !.wq = @ \ {t}], t, IF p = "Sw:roll" THEN "W:roll" ELSE "W:ckpt")
      [] p \in {"W:roll", "W:ckpt"} ->
            LET s2 == [s1 EXCEPT !.lp = s.nv - 1, !.lkS = 0, !.dsnap = [ver |-> s.nv - 1, idx |-> s.idx]]
                op == CurOp(s, t) IN
            Ret(s2, t, IF op.op \in {"put", "txfinish", "ckpt"} THEN "ok" ELSE IF op.op = "del" THEN "true" ELSE "count", Len(me.keys))
      [] p = "Sr:read" ->
            LET op == CurOp(s, t) IN
            (CASE op.op = "guard" -> Ret([s1 EXCEPT !.ug = @ \cup {t}], t, "ok", 0)     \* a user keeps an IndexReadGuard
              [] op.op \in {"get", "size", "range", "reader"} ->
                    IF s.idx[me.k] = Absent THEN Ret(s1, t, Absent, 0)
                    ELSE IF op.op = "size" THEN Ret(s1, t, s.idx[me.k], 0)      \* index metadata only, no blob I/O
                    ELSE \* OpenUnderGuard: the read guard is kept until the blob file is open
                         At([s1 EXCEPT !.th[t].item = s.idx[me.k], !.rd = IF OpenUnderGuard THEN @ \cup {t} ELSE @], t, "F:read_open")
              [] op.op = "del" ->
                    IF s.idx[me.k] = Absent THEN Ret(s1, t, "false", 0)
                    ELSE At([s1 EXCEPT !.th[t].keys = <<me.k>>], t, "I:rm")
              [] op.op = "delr" ->
                    LET ks == KeysInRangeC(s.idx, op.lo, op.hi) IN
                    IF ks = <<>> THEN Ret(s1, t, "count", 0)
                    ELSE At([s1 EXCEPT !.th[t].keys = ks], t, "I:rm")
              [] OTHER ->     \* orphan re-validation under the intents lock
                    IF RefCounts(s.idx)[me.c] > 0 \/ me.c \in Protected(s)
                    THEN NextOrphan([s1 EXCEPT !.lkI = 0], t, FALSE)
                    ELSE At(s1, t, "F:orphan_unlink"))
      [] p = "F:read_open" ->
            LET s2 == [s1 EXCEPT !.rd = @ \ {t}] IN
            IF CurOp(s, t).op = "size" \/ me.item \in s.cas THEN Ret(s2, t, me.item, 0)
            ELSE Ret([s2 EXCEPT !.th[t].failed = TRUE], t, "ERR", 0)
      [] p = "I:orphan" -> At([s1 EXCEPT !.lkI = t], t, "Sr:read")
      [] p = "F:orphan_unlink" -> NextOrphan([s1 EXCEPT !.cas = @ \ {me.c}, !.lkI = 0], t, me.c \in s.cas)

\* one RECORDED step (from yield point to yield point): the model's step, plus the in-memory apply when the
\* step was the log append (there is no yield point between the two in the code)
StepObs(s, t) == LET a == StepT(s, t) IN IF a.th[t].pc = "M:apply" THEN StepT(a, t) ELSE a

(***************************************************************************)
(* Properties                                                              *)
(***************************************************************************)
\* what a recovery would build from the durable side if the process were killed now
KillIdx(s) == ApplyRecs(IxOf(s.dsnap.idx), s.dlog, s.dsnap.ver).idx
\* crash x concurrency: at every instant of every interleaving the durable side recovers to the index the handle
\* shows - or, in the instant between a log append and its in-memory apply, to that index with the one logged
\* operation applied - and every key of the recovered index has its blob (nothing is unlinked before the record that
\* releases it is durable, nothing is logged before its blob is in place)
C03x_KillSafe(s) ==
    LET r == KillIdx(s) IN
    /\ \/ r = s.idx
       \/ \E t \in Threads(s) : s.th[t].pc = "M:apply" /\ r = MapApply(s.idx, LopOf(s, t))
    /\ \A k \in Keys : r[k] # Absent => r[k] \in s.cas
AllDone(s) == \A t \in Threads(s) : s.th[t].pc = "done"

\* C04: every key of the index names an existing blob - in every state
C04_NoDangling(s) == \A k \in Keys : s.idx[k] # Absent => s.idx[k] \in s.cas

\* C05: a read never fails and returns a value the key held during the call
C05_ReadOk(s) == \A t \in Threads(s) :
    (s.th[t].pc \in {"call", "done"} /\ s.th[t].res # "none" /\ s.th[t].seen # {}) =>
        LET op == s.prog[t][IF s.th[t].pc = "done" THEN s.th[t].opi ELSE s.th[t].opi - 1] IN
        op.op \in {"get", "size", "range", "reader"} => s.th[t].res \in s.th[t].seen

\* C07 at quiescence of an error-free program
C07_QuiescentExact(s) == AllDone(s) => s.cas \ SeqToSetC(s.orph) = Live(s.idx) \ SeqToSetC(s.orph)
                                         \* (error-free programs; after a reverted commit a per-key slot may stay - observation F9)
                                         /\ ((\A t \in Threads(s) : \A i \in 1..Len(s.prog[t]) : s.prog[t][i].op # "putfail")
                                               => \A k \in Keys : s.intents[k] = Absent)

\* C15: lock order is acyclic (edges: held -> acquired)
C15_LockOrderAcyclic(s) == ~(\E a, b \in {"I", "S", "W"} : a # b /\ <<a, b>> \in s.edges /\ <<b, a>> \in s.edges)
=============================================================================
