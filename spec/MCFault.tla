------------------------------- MODULE MCFault -------------------------------
(* Every history of <= MaxOps operations with at most MaxFaults failing filesystem calls at any step.  fm[k] is the   *)
(* set of values key k may hold according to the property: exact for keys of operations that returned normally, old   *)
(* or new for the keys of the operation that hit the fault.                                                           *)
EXTENDS CasFault
CONSTANTS MaxOps, MaxFaults, WalN, PutContents
VARIABLES s, fm, nf

Menu == {[op |-> "put", k |-> k, c |-> c] : k \in Keys, c \in PutContents}
   \cup {[op |-> "del", k |-> k] : k \in Keys}
   \cup {[op |-> "delr", lo |-> <<"U", 0>>, hi |-> <<"U", 0>>], [op |-> "ckpt"], [op |-> "reopen"], [op |-> "abort", k |-> 1, c |-> "A"]}

OpKeysM(u) == CASE u.op \in {"put", "del"} -> {u.k} [] u.op = "delr" -> Keys [] OTHER -> {}
NewVal(u, k) == IF u.op = "put" THEN u.c ELSE Absent

Init == s = InitState(WalN, {}) /\ fm = [k \in Keys |-> {Absent}] /\ nf = 0
StartOp   == s.pc = "idle" /\ s.open /\ s.nops < MaxOps /\ \E u \in Menu : s' = Begin(s, u) /\ UNCHANGED <<fm, nf>>
StartOpen == s.pc = "idle" /\ ~s.open /\ s' = [Begin(s, [op |-> "open"]) EXCEPT !.nops = s.nops] /\ UNCHANGED <<fm, nf>>
\* a normal step; when it completes the operation, the keys of the operation hold exactly the new value
DoStep == /\ s.pc # "idle" /\ s' = Step(s)
          /\ fm' = IF s'.pc = "idle" /\ s.op.op \in {"put", "del", "delr"} /\ s.infl # NoOp /\ s'.res # "err"
                   THEN [k \in Keys |-> IF k \in OpKeysM(s.op) /\ (s.op.op # "delr" \/ \E i \in 1..Len(s.infl.ks) : s.infl.ks[i] = k)
                                        THEN {NewVal(s.op, k)} ELSE fm[k]]
                   ELSE fm
          /\ nf' = nf
\* the call fails: the keys of the operation in flight may hold the old or the new value from now on
Fault  == /\ nf < MaxFaults /\ CanFail(s) /\ s' = FailStep(s)
          /\ fm' = [k \in Keys |-> IF k \in OpKeysM(s.op) THEN fm[k] \cup {NewVal(s.op, k)} ELSE fm[k]]
          /\ nf' = nf + 1
Next == StartOp \/ StartOpen \/ DoStep \/ Fault
Spec == Init /\ [][Next]_<<s, fm, nf>>

\* C14 at every quiescent state of an open handle: every key holds an allowed value, and its blob is there
Inv_C14_Contained == (s.pc = "idle" /\ s.open) => \A k \in Keys : s.ix.idx[k] \in fm[k] /\ (s.ix.idx[k] # Absent => s.ix.idx[k] \in s.cas)
\* what a reopen would show is allowed too, and the reopen succeeds
Inv_C14_Reopen == LET r == Recover(DiskOf(s), s.n) IN
                  r.ok /\ (s.pc = "idle" => \A k \in Keys : r.idx[k] \in fm[k] /\ (r.idx[k] # Absent => r.idx[k] \in s.cas))
\* an open fails only in the step that hit the fault
Inv_C14_OpenOk == (s.res = "err" /\ s.op.op \in {"open", "reopen"} /\ s.pc = "idle") => nf > 0
Inv_C12 == C12_CountsExact(s)
=============================================================================
