------------------------------- MODULE MCPower -------------------------------
(* Exhaustive: every history of <= MaxOps operations x every cut x every loss set; a power loss may  *)
(* also really happen (PowerLoss), after which the store is recovered and used further.              *)
EXTENDS CasPower
CONSTANTS MaxOps, MaxCrashes, WalN, PutContents
VARIABLES s, d

Menu == {[op |-> "put", k |-> k, c |-> c] : k \in Keys, c \in PutContents}
   \cup {[op |-> "del", k |-> k] : k \in Keys}
   \cup {[op |-> "delr", lo |-> <<"U", 0>>, hi |-> <<"U", 0>>], [op |-> "ckpt"], [op |-> "reopen"]}

Init == s = InitState(WalN, {}) /\ d = DurInit
StartOp   == s.pc = "idle" /\ s.open /\ s.nops < MaxOps /\ \E u \in Menu : s' = Begin(s, u) /\ d' = d
StartOpen == s.pc = "idle" /\ ~s.open /\ s' = [Begin(s, [op |-> "open"]) EXCEPT !.nops = s.nops] /\ d' = d
DoStep    == s.pc # "idle" /\ s' = Step(s) /\ d' = DurStep(d, s, s')
PowerLoss == /\ s.crashes < MaxCrashes /\ (s.pc # "idle" \/ s.open)
             /\ \E F \in SUBSET Unsynced(s, d) :
                   LET ls == LossState(s, d, F) IN
                   /\ s' = CrashOf(ls)
                   /\ d' = [d EXCEPT !.seg = [i \in DOMAIN ls.segs |-> Len(ls.segs[i])], !.snap = ls.snap, !.snapTmp = ls.snapTmp,
                                     !.settings = ls.settings, !.lost = {}, !.stgSynced = FALSE]
Next == StartOp \/ StartOpen \/ DoStep \/ PowerLoss
Spec == Init /\ [][Next]_<<s, d>>
Inv_C09 == C09_PowerSafe(s, d)
Inv_C03 == C03_CrashAtomic(s)
Inv_OpenOk == s.res # "err"
=============================================================================
