------------------------------ MODULE RangeRead ------------------------------
(* C17: Cas::get_range + CasManager::read_blob_range_from, transcribed; and the property.        *)
(* Bounds beyond TLC's 32-bit integers are symbolic: -32, -63, -64 stand for 2^32, 2^63, 2^64-1  *)
(* and are mapped, order-preserving, above every blob length used.                               *)
EXTENDS Integers, TLC

BVal(x) == CASE x = -32 -> 2000000001 [] x = -63 -> 2000000002 [] x = -64 -> 2000000003 [] OTHER -> x
RMin(a, b) == IF a <= b THEN a ELSE b

\* the implementation, in its own order of tests
GetRange(L, sc, ec) ==
    LET s == BVal(sc)  e == BVal(ec) IN
    IF s >= L THEN [st |-> "ok", off |-> L, len |-> 0, alloc |-> 0]           \* early empty result, no file access
    ELSE LET e2 == RMin(e, L) IN                                              \* clamp
         IF s > e2 THEN [st |-> "err", off |-> 0, len |-> 0, alloc |-> 0]     \* InvalidRangeStartEnd
         ELSE [st |-> "ok", off |-> s, len |-> e2 - s, alloc |-> e2 - s]      \* Vec::with_capacity(read_len)

\* the property: bytes [min(s,L), min(e,L)); rejected exactly when s > e and s < L; allocation <= L
RangeSpecHolds(L, sc, ec) ==
    LET s == BVal(sc)  e == BVal(ec)  r == GetRange(L, sc, ec) IN
    /\ (r.st = "err") <=> (s > e /\ s < L)
    /\ r.st = "ok" => /\ r.len = (IF RMin(e, L) >= RMin(s, L) THEN RMin(e, L) - RMin(s, L) ELSE 0)
                      /\ (r.len > 0 => r.off = RMin(s, L))
    /\ r.alloc <= L
=============================================================================
