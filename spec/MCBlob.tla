------------------------------- MODULE MCBlob -------------------------------
(* (1) every chunking (with empty chunks) of every content of up to MaxAtoms atoms through the    *)
(*     buffered transaction: at finish hashed = on disk = content and size = length;              *)
(* (2) ParsePath(RelPath(h)) = h for all nibble strings of a reduced length over NibAlpha.         *)
EXTENDS BlobId
CONSTANTS MaxAtoms, Cap, NibAlpha, HLen
VARIABLES st, rest, content, h

Init == /\ \E n \in 0..MaxAtoms : content = [i \in 1..n |-> i]
        /\ st = TxInit /\ rest = content
        /\ h \in [1..HLen -> NibAlpha]
Write == /\ ~st.done /\ \E c \in 0..Len(rest) :
              /\ st' = TxWrite(st, SubSeq(rest, 1, c), Cap)
              /\ rest' = SubSeq(rest, c + 1, Len(rest))
         /\ UNCHANGED <<content, h>>
Finish == ~st.done /\ rest = <<>> /\ st' = TxFinish(st) /\ UNCHANGED <<rest, content, h>>
Next == Write \/ Finish \/ (st.done /\ UNCHANGED <<st, rest, content, h>>)
Spec == Init /\ [][Next]_<<st, rest, content, h>>
\* empty chunks must not loop for ever in the model: bounded by a constraint on written-empty steps is not needed,
\* an empty chunk leaves the state unchanged (stuttering)
Inv_C18_Identity == st.done => st.hashed = content /\ st.disk = content /\ st.size = Len(content)
Inv_C18_NoReorder == \E k \in 0..Len(content) : st.disk \o st.buf = SubSeq(content, 1, k)
Inv_C18_PathBijection == ParsePath(RelPath(h, 2, 2), HLen) = [st |-> "ok", nib |-> h]
=============================================================================
