------------------------------- MODULE TraceVec -------------------------------
(* Validation of recorded calls of the pure functions (harness mode D) against their transcriptions:*)
(* C16 (Codec), C17 (RangeRead), C18 (BlobId).                                                      *)
EXTENDS RangeRead, BlobId, Codec, Json, IOUtils

Lines == ndJsonDeserialize(IOEnv.TRACE)
VARIABLE l
SeqToSet(q) == {q[i] : i \in 1..Len(q)}
FailT(cond, tag) == IF cond THEN {} ELSE {tag}
RECURSIVE JoinTags(_)
JoinTags(S) == IF S = {} THEN "" ELSE LET x == CHOOSE x \in S : TRUE IN x \o ";" \o JoinTags(S \ {x})
Report(tags) == IF tags = {} THEN TRUE ELSE PrintT("FAIL@" \o ToString(l) \o "@vec@" \o JoinTags(tags))
Line == Lines[l]

RangeFails(ln) ==
    LET r == GetRange(ln.L, ln.s, ln.e) IN
    UNION {
      FailT(ln.st # "panic", "C17:panic"),
      FailT(RangeSpecHolds(ln.L, ln.s, ln.e), "C17:transcription-violates-property"),
      FailT(ln.st = r.st, "C17:accept-reject"),
      IF ln.st = "ok" /\ r.st = "ok" THEN
         UNION { FailT(ln.len = r.len, "C17:length"),
                 FailT(ln.len = 0 \/ (ln.at_start /\ r.off = BVal(ln.s)), "C17:offset"),
                 FailT(ln.bytes_ok, "C17:bytes") } ELSE {},
      FailT(ln.alloc <= ln.L + 1024, "C17:allocation")
    }

OpFromJson(o) == [t |-> o.t, key |-> o.key, hash |-> o.hash, size |-> o.size, keys |-> o.keys]
DecOpFails(ln) ==
    LET r == DecOp(ln.bytes) IN
    UNION {
      FailT(ln.res.st # "panic", "C16:decode-op-panic"),
      FailT(ln.res.st = r.st, "C16:decode-op-status"),
      IF r.st = "ok" /\ ln.res.st = "ok" THEN FailT(OpFromJson(ln.res.op) = r.op, "C16:decode-op-value") ELSE {},
      FailT(AllocOk(ln.alloc, Len(ln.bytes)), "C16:decode-op-allocation")
    }
EncOpFails(ln) ==
    LET op == OpFromJson(ln.op) IN
    UNION { FailT(ln.bytes = EncOp(op), "C16:encode-op-bytes"),
            FailT(DecOp(ln.bytes) = [st |-> "ok", op |-> op], "C16:op-roundtrip") }
DecSnapFails(ln) ==
    LET r == DecSnap(ln.bytes) IN
    UNION {
      FailT(ln.res.st # "panic", "C16:decode-snapshot-panic"),
      FailT(ln.res.st = r.st, "C16:decode-snapshot-status"),
      IF r.st = "ok" /\ ln.res.st = "ok" THEN
         FailT(ln.res.snap.ver = r.ver /\ SeqToSet(ln.res.snap.ents) = r.ents /\ Len(ln.res.snap.ents) = Cardinality(r.ents),
               "C16:decode-snapshot-value") ELSE {},
      FailT(AllocOk(ln.alloc, Len(ln.bytes)), "C16:decode-snapshot-allocation")
    }
EncSnapFails(ln) ==
    UNION { FailT(ln.bytes = EncSnap(ln.snap.ver, ln.snap.ents), "C16:encode-snapshot-bytes"),
            LET r == DecSnap(ln.bytes) IN
            FailT(r.st = "ok" /\ r.ver = ln.snap.ver /\ r.ents = SeqToSet(ln.snap.ents), "C16:snapshot-roundtrip") }
DecSegFails(ln) ==
    LET r == DecSeg(ln.bytes, 1, ln.sums, <<>>) IN
    UNION { FailT(ln.st = "ok", "C16:segment-reader-" \o ln.st),
            IF ln.st = "ok" THEN FailT(ln.entries = r.entries /\ ln.err = r.err, "C16:segment-reader-result") ELSE {} }

BlobFails(ln) ==
    UNION { FailT(ln.hash_ok /\ ln.calc_ok, "C18:hash-differs-from-blake3-of-content"),
            FailT(ln.size = ln.atoms * ln.asize, "C18:size"),
            FailT(ln.file_ok, "C18:file-not-at-derived-path-or-wrong-bytes") }
PathFails(ln) ==
    UNION { FailT(ln.comps = RelPath(ln.nib, 2, 2), "C18:relative-path"),
            FailT(ln.parsed.st = "ok" /\ ln.parsed.nib = ln.nib, "C18:path-does-not-parse-back"),
            FailT(ParsePath(RelPath(ln.nib, 2, 2), 64) = [st |-> "ok", nib |-> ln.nib], "C18:transcription-not-bijective") }
ParseFails(ln) ==
    LET r == ParsePath(ln.comps, 64) IN
    UNION { FailT(ln.parsed.st # "panic", "C16:path-parser-panic"),
            FailT(ln.parsed.st = r.st /\ (r.st = "ok" => ln.parsed.nib = r.nib), "C16:path-parser-result") }

\* Cas::open replaying a crafted segment: keys (byte strings) present after applying the decoded operations in order
RECURSIVE KeysAfter(_, _)
KeysAfter(ents, acc) ==
    IF ents = <<>> THEN [ok |-> TRUE, keys |-> acc]
    ELSE LET d == DecOp(Head(ents).data) IN
         IF d.st # "ok" THEN [ok |-> FALSE, keys |-> acc]
         ELSE KeysAfter(Tail(ents), IF d.op.t = "put" THEN acc \cup {d.op.key}
                                    ELSE acc \ {d.op.keys[i] : i \in 1..Len(d.op.keys)})
OpenWalFails(ln) ==
    LET r == DecSeg(ln.bytes, 1, ln.sums, <<>>)
        k == KeysAfter(r.entries, {})
        good == r.err = "" /\ k.ok IN
    UNION { FailT(ln.st # "panic", "C16:open-crafted-wal-panic"),
            FailT((ln.st = "ok") = good, "C16:open-crafted-wal-accept-reject"),
            IF ln.st = "ok" /\ good THEN FailT(ln.n = Cardinality(k.keys), "C16:open-crafted-wal-keys") ELSE {} }

LineFails(ln) ==
    CASE ln.ev = "range" -> RangeFails(ln)
      [] ln.ev = "blobsize" -> UNION { FailT(ln.size = ln.L, "C17:get_size"), FailT(ln.rdlen = ln.L /\ ln.rd_ok, "C17:get_reader"), FailT(ln.get_ok, "C17:get") }
      [] ln.ev = "range_absent" -> FailT(ln.ok /\ ln.size_absent, "C17:absent-key")
      [] ln.ev = "blob" -> BlobFails(ln)
      [] ln.ev = "blobr" -> UNION { FailT(ln.hash_ok, "C18:hash-differs-from-blake3-of-content"), FailT(ln.size = ln.len, "C18:size"), FailT(ln.file_ok, "C18:file-not-at-derived-path-or-wrong-bytes") }
      [] ln.ev = "blobbatch" -> FailT(ln.bad = 0, "C18:file-not-at-derived-path-or-wrong-bytes")
      [] ln.ev = "path" -> PathFails(ln)
      [] ln.ev = "parse" -> ParseFails(ln)
      [] ln.ev = "dec_op" -> DecOpFails(ln)
      [] ln.ev = "enc_op" -> EncOpFails(ln)
      [] ln.ev = "dec_snap" -> DecSnapFails(ln)
      [] ln.ev = "enc_snap" -> EncSnapFails(ln)
      [] ln.ev = "dec_seg" -> DecSegFails(ln)
      [] ln.ev = "open_wal" -> OpenWalFails(ln)
      [] ln.ev = "open_index" ->
            \* Cas::open on a crafted snapshot: never a panic; accepted exactly when the snapshot decodes, is not empty
            \* and its keys decode for the key type; the index then holds one entry per distinct key
            LET r == DecSnap(ln.bytes)
                good == ln.bytes # <<>> /\ r.st = "ok" /\ ln.utf8_ok IN
            UNION { FailT(ln.st # "panic", "C16:open-crafted-index-panic"),
                    FailT((ln.st = "ok") = good, "C16:open-crafted-index-accept-reject"),
                    IF ln.st = "ok" /\ good THEN FailT(ln.n = Cardinality(r.ents), "C16:open-crafted-index-entries") ELSE {} }
      [] ln.ev = "snaprt" -> FailT(ln.st = "ok" /\ ln.same, "C16:snapshot-roundtrip-through-key-type-" \o ln.kt \o "-" \o ln.st)
      [] ln.ev = "keyrt" -> FailT(ln.same_owned /\ ln.back_ok, "C16:key-encoding-roundtrip-" \o ln.kt)
      [] ln.ev = "keyrej" -> FailT(ln.u32_3 /\ ln.u32_5 /\ ln.arr4_3 /\ ln.str_bad_utf8, "C16:key-decoding-accepts-wrong-length")
      [] OTHER -> {"TOOL:unknown-line"}

Init == l = 1
Next == l <= Len(Lines) /\ l' = l + 1 /\ Report(LineFails(Line))
Spec == Init /\ [][Next]_l
AllConsumed == IF TLCGet("stats").diameter - 1 = Len(Lines) THEN TRUE
               ELSE PrintT("UNCONSUMED@" \o ToString(TLCGet("stats").diameter) \o "@" \o ToString(Len(Lines))) /\ FALSE
=============================================================================
