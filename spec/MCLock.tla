------------------------------- MODULE MCLock -------------------------------
(* Exhaustive: all orders of open / clone / drop / kill for NH handles in NP processes, with the  *)
(* open split into its steps so that two openers race on the flock.                               *)
EXTENDS CasLock, Json
CONSTANTS MaxActs
VARIABLES s, pc, hist      \* pc[h]: step of an open in progress; hist: completed actions (generator)

Init == s = LockInit /\ pc = [h \in Handles |-> "idle"] /\ hist = <<>>
ProcOf(h) == ((h - 1) % NP) + 1
Log(a, h) == hist' = Append(hist, [a |-> a, h |-> h, p |-> ProcOf(h)])

StartOpen(h, a) == /\ pc[h] = "idle" /\ s.hs[h].st # "open" /\ Len(hist) < MaxActs
                   /\ pc' = [pc EXCEPT ![h] = a] /\ UNCHANGED <<s, hist>>
\* mkdirs + open(LOCK): no effect on the model state, separate steps so that openers interleave
TryLock(h) == /\ pc[h] \in {"open", "openstats", "openbad", "openalias"}
              /\ LET r == Act(s, pc[h], h, ProcOf(h)) IN s' = r.s
              /\ Log(pc[h], h) /\ pc' = [pc EXCEPT ![h] = "idle"]
Simple(a, h) == /\ pc[h] = "idle" /\ Len(hist) < MaxActs /\ Act(s, a, h, ProcOf(h)).res = "ok" /\ s.hs[h].st = "open"
                /\ s' = Act(s, a, h, ProcOf(h)).s /\ Log(a, h) /\ UNCHANGED pc
Kill(p) == /\ Len(hist) < MaxActs /\ \E h \in Handles : s.hs[h].p = p /\ s.hs[h].st = "open"
           /\ \A h \in Handles : ProcOf(h) = p => pc[h] = "idle"
           /\ s' = Act(s, "kill", 0, p).s /\ hist' = Append(hist, [a |-> "kill", h |-> 0, p |-> p]) /\ UNCHANGED pc
\* openbad only on a directory that exists already (somebody has owned it): on a fresh one it would create the store
StartBad(h) == (\E i \in 1..Len(hist) : hist[i].a \in {"open", "openstats"}) /\ s.hs[h].st # "open" /\ StartOpen(h, "openbad")
\* an alias exists once the directory does
StartAlias(h) == (\E i \in 1..Len(hist) : hist[i].a \in {"open", "openstats"}) /\ StartOpen(h, "openalias")
Next == \/ \E h \in Handles : StartOpen(h, "open") \/ StartOpen(h, "openstats") \/ StartBad(h) \/ StartAlias(h) \/ TryLock(h)
        \/ \E h \in Handles, a \in {"clone", "dropclone", "dropcas", "drop", "put", "cleanup"} : Simple(a, h)
        \/ \E p \in Procs : Kill(p)
Spec == Init /\ [][Next]_<<s, pc, hist>>
Inv_C11_OneOwner == OneOwner(s) /\ HolderConsistent(s)
Inv_C11_Loser == LoserWroteNothing(s)
View == <<s, pc, Len(hist)>>
Emit == Len(hist) = MaxActs => PrintT("LSCEN@" \o ToJson(hist))
=============================================================================
