------------------------------ MODULE CasDamage ------------------------------
(***************************************************************************)
(* C10: damage to the not-yet-checkpointed part of the log.                *)
(* A damaged directory is judged against the state after the longest       *)
(* prefix of the LOGGED un-checkpointed records that is still intact in it.*)
(* Damage kinds on item i of a segment (abstracting byte positions):       *)
(*   cut   - the file ends exactly before item i                           *)
(*   torn  - the file ends inside the header of item i                     *)
(*   hdr   - the file ends inside the payload of record i                  *)
(*   bad   - a byte of the checksum or payload of record i is altered      *)
(***************************************************************************)
EXTENDS CasSteps

\* (ApplyRecs: module CasModel)
RECURSIVE IntactPrefix(_, _)
IntactPrefix(B, present) ==
    IF B = <<>> \/ Head(B) \notin present THEN <<>> ELSE <<Head(B)>> \o IntactPrefix(Tail(B), present)

\* base, dmg: disk values (records with fields snap, segs)
PrefixState(base, dmg) ==
    LET B == AllRecs(base.segs)
        P == IntactPrefix(B, Range(AllRecs(dmg.segs)))
    IN  ApplyRecs(IxOf(base.snap.idx), P, base.snap.ver).idx

DamageKinds == {"cut", "torn", "hdr", "bad"}
Damaged(items, i, kind) ==
    CASE kind = "cut"  -> SubSeq(items, 1, i - 1)
      [] kind = "torn" -> Append(SubSeq(items, 1, i - 1), Torn)
      [] kind = "hdr"  -> Append(SubSeq(items, 1, i - 1), Hdr(items[i].v))
      [] kind = "bad"  -> [items EXCEPT ![i] = Bad(items[i].v)]

\* segments that hold un-checkpointed records
UnckSegs(d) == {id \in DOMAIN d.segs : \E i \in 1..Len(d.segs[id]) : d.segs[id][i].t = "rec" /\ d.segs[id][i].v > d.snap.ver}
\* finding F7: a truncation in a segment that is not the last one holding un-checkpointed records
IsF7(d, id, kind) == kind \in {"cut", "torn"} /\ \E j \in UnckSegs(d) : j > id
=============================================================================
