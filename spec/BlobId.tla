------------------------------- MODULE BlobId -------------------------------
(* C18: a transaction as a state machine over atoms (Transaction::write / finish with the 8 KiB  *)
(* BufWriter), and the hash <-> path mapping on nibble sequences.                                *)
EXTENDS Integers, Sequences, TLC

\* ---- BufWriter<File>::write_all as std implements it; Cap = capacity in atoms
BufWrite(st, chunk, Cap) ==
    LET st1 == IF Len(st.buf) + Len(chunk) > Cap THEN [st EXCEPT !.disk = @ \o st.buf, !.buf = <<>>] ELSE st IN
    IF Len(chunk) >= Cap THEN [st1 EXCEPT !.disk = @ \o chunk] ELSE [st1 EXCEPT !.buf = @ \o chunk]

TxWrite(st, chunk, Cap) ==
    LET st1 == [st EXCEPT !.size = @ + Len(chunk), !.hashed = @ \o chunk] IN BufWrite(st1, chunk, Cap)
TxFinish(st) == [st EXCEPT !.disk = @ \o st.buf, !.buf = <<>>, !.done = TRUE]
TxInit == [buf |-> <<>>, disk |-> <<>>, hashed |-> <<>>, size |-> 0, done |-> FALSE]

\* ---- BlobHash::relative_path / from_relative_path
HexChar(n) == IF n < 10 THEN 48 + n ELSE 87 + n                 \* lower-case digits
NibOf(c) == CASE c >= 48 /\ c <= 57 -> c - 48
              [] c >= 97 /\ c <= 102 -> c - 87
              [] c >= 65 /\ c <= 70 -> c - 55                   \* hex::decode accepts upper case too
              [] OTHER -> -1
RelPath(nib, a, b) == << [i \in 1..a |-> HexChar(nib[i])],
                         [i \in 1..b |-> HexChar(nib[a + i])],
                         [i \in 1..(Len(nib) - a - b) |-> HexChar(nib[a + b + i])] >>
\* last three components concatenated and hex-decoded into exactly hlen nibbles
ParsePath(comps, hlen) ==
    IF Len(comps) < 3 THEN [st |-> "err", nib |-> <<>>]
    ELSE LET n == Len(comps)
             cat == comps[n - 2] \o comps[n - 1] \o comps[n]
         IN  IF Len(cat) # hlen \/ \E i \in 1..Len(cat) : NibOf(cat[i]) = -1 THEN [st |-> "err", nib |-> <<>>]
             ELSE [st |-> "ok", nib |-> [i \in 1..hlen |-> NibOf(cat[i])]]
=============================================================================
