------------------------------ MODULE TraceSeq ------------------------------
(***************************************************************************)
(* Trace specification for recorded SEQUENTIAL executions of the real      *)
(* code (harness modes A, B, B', damage, plant, gate - DESIGN.md section 4).*)
(*                                                                         *)
(* One line of the ndjson trace is consumed per step.  The model state m   *)
(* is advanced with the step function of CasSteps run to completion        *)
(* (RunOp), so the oracle of every comparison is the specification that    *)
(* TLC model-checks in MCSteps.  For every line the set of failed checks   *)
(* is computed; each element is a tag "<property>:<what>".  A non-empty    *)
(* set is printed as <<"FAIL", line, scenario, tags>>; tags that start     *)
(* with "DRIFT" are refinement mismatches (the execution is not a          *)
(* behaviour of the fine-grained model although every property conjunct    *)
(* holds) and are not violations.                                          *)
(***************************************************************************)
EXTENDS CasDamage, Json, IOUtils

Lines == ndJsonDeserialize(IOEnv.TRACE)

VARIABLES l,      \* next line
          m,      \* model state (CasSteps record) after the lines consumed so far
          pobs,   \* previous observation (for "nothing changed" properties)
          sc,     \* [sid, mode] of the current scenario
          fm      \* fault mode: per key the set of values the key may hold (C14)
vars == <<l, m, pobs, sc, fm>>

(**************************** JSON -> model values *************************)
SeqToSet(q) == {q[i] : i \in 1..Len(q)}
SegsOfJson(js) == [id \in {js[i].id : i \in 1..Len(js)} |->
                      LET i == CHOOSE i \in 1..Len(js) : js[i].id = id IN js[i].items]
DiskOfJson(dj) == [settings |-> dj.settings, stmp |-> dj.stmp, snap |-> dj.snap, snapTmp |-> dj.snapTmp,
                   segs |-> SegsOfJson(dj.segs), cas |-> SeqToSet(dj.cas), stg |-> dj.stg]
SizeOfS(c) == IF c \in AllContents THEN SizeOf[c] ELSE -7
Known(idx) == \A k \in Keys : idx[k] \in AllContents \cup {Absent}
Fail(cond, tag) == IF cond THEN {} ELSE {tag}
CfgN(c) == c.n
BigK(c) == SeqToSet(c.bigk)

\* a model state whose disk is the observed disk d (used to continue from a crash image)
FromDisk(d, base) ==
    [InitState(base.n, base.bigk) EXCEPT !.settings = d.settings, !.stmp = d.stmp, !.snap = d.snap,
        !.snapTmp = d.snapTmp, !.segs = d.segs, !.cas = d.cas, !.stg = d.stg,
        !.used = RecVersions(d.segs), !.crashes = 1]

(**************************** property conjuncts on one observation *********)
PresentKeys(idx) == {k \in Keys : idx[k] # Absent}

\* the remaining accessors of the read guard (contains_key, get_item, require_item, is_empty, keys_snapshot,
\* contains_blob_hash, range() with excluded / unbounded ends) must tell the same story as iter()
GuardApiFails(o, p) ==
    IF ~o.gapi.on \/ ~Known(o.idx) THEN {} ELSE
    LET g  == o.gapi
        P  == PresentKeys(o.idx)
        ks == SortedIds(P)
    IN  Fail(/\ \A k \in Keys : g.has[k] = (k \in P) /\ g.req[k] = o.idx[k]
             /\ \A k \in Keys : g.item[k] = <<o.idx[k], IF o.idx[k] = Absent THEN -1 ELSE SizeOfS(o.idx[k])>>
             /\ g.empty = (P = {})
             /\ g.snap = [i \in 1..Len(ks) |-> <<ks[i], o.idx[ks[i]]>>]
             /\ \A i \in 1..Len(ContentSeq) : g.hasblob[i] = (ContentSeq[i] \in Live(o.idx))
             /\ \A i \in 1..Len(g.xr) : /\ g.xr[i].above = SortedIds({k \in P : k > g.xr[i].k})
                                        /\ g.xr[i].below = SortedIds({k \in P : k < g.xr[i].k})
             /\ g.full = ks, p \o ":guard-api")

\* every read API agrees with the index the same handle reports (C01 reads / C04 readable)
ReadsFails(o, p) ==
    IF ~Known(o.idx) THEN {p \o ":unknown-content"} ELSE
    UNION {
      Fail(\A k \in Keys : o.get[k] = o.idx[k], p \o ":get"),
      Fail(Len(o.rdr) = 0 \/ \A k \in Keys : o.rdr[k] = o.idx[k], p \o ":get_reader"),
      Fail(Len(o.gsize) = 0 \/ \A k \in Keys : o.gsize[k] = (IF o.idx[k] = Absent THEN -1 ELSE SizeOfS(o.idx[k])), p \o ":get_size"),
      Fail(o.iter = SortedIds(PresentKeys(o.idx)) /\ o.len = Cardinality(PresentKeys(o.idx)) /\ o.xkeys = 0, p \o ":iteration"),
      Fail(\A i \in 1..Len(o.ranges) : LET r == o.ranges[i] IN
                r.ks = SortedIds({k \in PresentKeys(o.idx) : k >= r.lo /\ k <= r.hi}), p \o ":range-iteration"),
      GuardApiFails(o, p),
      Fail(\A i \in 1..Len(o.rng) : LET g == o.rng[i]  c == o.idx[g.k] IN
                IF c = Absent THEN g.st = "-"
                ELSE LET L == SizeOfS(c)  lo == Min(g.s, L)  hi == Min(g.e, L) IN
                     g.st = "ok" /\ g.len = hi - lo /\ (g.len > 0 => g.c = c /\ g.off = lo), p \o ":get_range")
    }

\* C12: counts, sizes, statistics - against the from-scratch definitions on the reported index
CountFails(o) ==
    IF ~Known(o.idx) THEN {"C12:unknown-content"} ELSE
    UNION {
      Fail(\A i \in 1..Len(ContentSeq) : LET n == RefCounts(o.idx)[ContentSeq[i]] IN
                o.refc[i] = (IF n = 0 THEN -1 ELSE n), "C12:refcount"),
      Fail(o.refx = 0, "C12:known_blobs-extra"),
      Fail(o.stats = <<UniqueBlobs(o.idx), TotalBytes(o.idx)>>, "C12:stats"),
      Fail(\A k \in Keys : o.sizes[k] = (IF o.idx[k] = Absent THEN -1 ELSE SizeOfS(o.idx[k])), "C12:size")
    }

\* C07: exactly one file per referenced content, nothing else, staging empty
ExactFails(o, p) ==
    UNION {
      Fail(SeqToSet(o.disk.cas) = Live(o.idx) /\ o.disk.casbad = <<>> /\ o.disk.casunk = 0, p \o ":cas-listing"),
      Fail(o.disk.junk = 0, p \o ":junk"),
      Fail(o.disk.stg = 0, p \o ":staging")
    }

\* C06: every visible CAS file holds the bytes its name promises
BlobFails(dj) == Fail(dj.casbad = <<>>, "C06:blob-bytes")
\* C06: no file under cas/ is created empty, written, or truncated in place (counted by the interposer: open with
\* O_CREAT/O_TRUNC, write, ftruncate on a path under cas/; blobs appear by rename and disappear by unlink only)
InPlaceFails(o) == Fail(o.casw = 0, "C06:in-place-write-under-cas")

\* C20 on a decoded directory: shape of the log and snapshot
WellFormedFails(d, n) ==
    UNION {
      Fail(\A id \in DOMAIN d.segs : SegmentWellFormed(d.segs[id]), "C20:segment-shape"),
      Fail(VersionsIncreasing(d.segs), "C20:versions-increasing"),
      Fail(VersionsInRange(d.segs, n), "C20:version-range"),
      Fail(d.snap.st \in {"none", "full"}, "C20:snapshot-complete")
    }

Stable(o, p) == o.idx = p.idx /\ o.sizes = p.sizes /\ o.refc = p.refc /\ o.stats = p.stats
                /\ o.get = p.get /\ o.disk.cas = p.disk.cas /\ o.disk.stg = p.disk.stg
DiskSame(a, b) == a.settings = b.settings /\ a.snap = b.snap /\ a.snapTmp = b.snapTmp /\ a.segs = b.segs
                  /\ a.cas = b.cas /\ a.stg = b.stg /\ a.junk = b.junk /\ a.ixfile = b.ixfile

ResVal(mm) == IF mm.res = "none" THEN "ok" ELSE mm.res
ResFails(res, m2) ==
    Fail(res.ok /\ res.val = ResVal(m2) /\ (m2.res = "count" => res.n = m2.resn), "C01:result")

(***************************************************************************)
(* One API-level step: model before (mb), operation, recorded result and   *)
(* observation.  crashed = an unclean stop happened earlier in the         *)
(* scenario (C07 exactness is then only required after a clean-up).        *)
(***************************************************************************)
OpFails(mb, uop, res, o, po, exact, drift) ==
    LET m2 == RunOp(mb, uop)
        d  == DiskOfJson(o.disk)
        r  == Recover(d, mb.n)
    IN  UNION {
          ResFails(res, m2),
          Fail(o.idx = m2.ix.idx, "C01:index"),
          Fail(o.open = m2.open, "C01:open"),
          ReadsFails(o, "C01"),
          CountFails(o),
          IF exact THEN ExactFails(o, "C07") ELSE {},
          BlobFails(o.disk),
          InPlaceFails(o),
          WellFormedFails(d, mb.n),
          Fail(r.ok /\ r.idx = m2.acked, "C20:decode-equals-history"),
          IF uop.op \in {"reopen", "ckpt"} THEN Fail(Stable(o, po), "C02:changed-by-" \o uop.op) ELSE {},
          IF uop.op = "abort" THEN Fail(Stable(o, po) /\ DiskSame(o.disk, po.disk), "C13:abort-left-trace") ELSE {},
          \* "leaves no trace" inside the process too: the staging file's descriptor is closed again
          \* (fds = descriptors open on staging files, unlinked ones included; none is open between calls)
          Fail(o.fds = 0, "C13:staging-descriptor-left-open"),
          IF uop.op = "rddrain" THEN Fail(res.ok /\ res.val = ResVal(m2), "C06:reader-did-not-stream-the-original-content") ELSE {},
          IF drift THEN Fail(d = DiskOf(m2), "DRIFT:disk-after-op") ELSE {},
          IF drift THEN Fail(o.ixsz = o.disk.ixfile, "DRIFT:index-size-stat") ELSE {}
        }

(***************************************************************************)
(* A crash / power-loss image taken while uop was in flight from mb.       *)
(***************************************************************************)
RECURSIVE ContFails(_, _, _, _)
ContFails(ms, cont, i, po) ==
    IF i > Len(cont) THEN {}
    ELSE LET c == cont[i]
             \* after a clean-up among the earlier continuation steps exactness is required again (every standard
             \* continuation starts with one; the "second session next to the leftovers" continuations have none)
             f == OpFails(ms, c.op, c.res, c.obs, po, \E j \in 1..(i - 1) : cont[j].op.op = "cleanup", FALSE)
         IN  {"C03:cont-" \o x : x \in f} \cup ContFails(RunOp(ms, c.op), cont, i + 1, c.obs)

ScanFails(o, dj, verify, p) ==
    LET ok  == SeqToSet(dj.cas)
        bad == SeqToSet(dj.casbad)
        s   == Scan(o.idx, ok, bad, verify)
    IN  IF ~o.orph.on THEN {} ELSE
        UNION {
          \* a file at the canonical path of a hash that is not one of the named contents is reported as "?"
          Fail(SeqToSet(o.orph.orphaned) \ {"?"} = s.orphaned
               /\ Len(o.orph.orphaned) = Cardinality(s.orphaned) + dj.casunk, p \o ":orphaned"),
          Fail(SeqToSet(o.orph.missing) = s.missing /\ Len(o.orph.missing) = Cardinality(s.missing), p \o ":missing"),
          Fail(SeqToSet(o.orph.corrupted) = s.corrupted /\ Len(o.orph.corrupted) = Cardinality(s.corrupted), p \o ":corrupted"),
          Fail(o.orph.invalid = dj.junk, p \o ":invalid"),
          Fail(o.orph.staging = dj.stg, p \o ":staging")
        }

ImgFails(mb, uop, rec, lost, pfx) ==
    LET d       == DiskOfJson(rec.disk)
        b       == Begin(mb, uop)
        infl    == b.infl
        allowed == {mb.acked, MapApply(mb.acked, infl)}
        r       == Recover(d, mb.n)
        mr      == RunOp(FromDisk(d, mb), [op |-> "open"])
        o       == rec.obs
    IN  UNION {
          Fail(rec.res.ok, pfx \o ":open-failed-" \o rec.res.err),
          Fail(~rec.res.ok \/ o.idx \in allowed, pfx \o ":recovered-state"),
          IF rec.res.ok THEN ReadsFails(o, pfx) ELSE {},
          IF rec.res.ok THEN CountFails(o) ELSE {},
          IF rec.res.ok /\ lost = <<>> THEN ScanFails(o, o.disk, FALSE, "C08") ELSE {},
          BlobFails(rec.disk),
          IF lost = <<>> THEN WellFormedFails(d, mb.n) ELSE {},
          IF lost = <<>> THEN Fail(r.ok /\ r.idx \in allowed, "C20:decode-equals-history") ELSE {},
          IF lost = <<>> THEN Fail(\A i \in 1..Len(AllRecs(mb.segs)) : LET x == AllRecs(mb.segs)[i] IN
                                      x.v > d.snap.ver => x \in SeqToSet(AllRecs(d.segs)), "C20:acked-record-missing") ELSE {},
          IF rec.res.ok /\ r.ok THEN Fail(o.idx = r.idx, "DRIFT:recovery-differs-from-model") ELSE {},
          IF lost = <<>> THEN Fail(d \in SeqToSet(DiskPath(mb, uop)), "DRIFT:boundary-disk-not-on-model-path") ELSE {},
          IF rec.res.ok THEN ContFails(mr, rec.cont, 1, o) ELSE {},
          UNION { LET nd == rec.nested[j] IN
                    UNION { Fail(nd.res.ok, pfx \o ":nested-open-failed-" \o nd.res.err),
                            Fail(~nd.res.ok \/ nd.obs.idx \in allowed, pfx \o ":nested-recovered-state"),
                            IF nd.res.ok THEN ReadsFails(nd.obs, pfx \o ":nested") ELSE {},
                            BlobFails(nd.disk),
                            WellFormedFails(DiskOfJson(nd.disk), mb.n) }
                  : j \in 1..Len(rec.nested) }
        }

(***************************************************************************)
(* C14: one injected failure.  fm[k] = set of values key k may hold.       *)
(***************************************************************************)
OpKeys(idx, uop) ==
    CASE uop.op \in {"put", "abort", "del"} -> {uop.k}
      [] uop.op = "delr" -> {k \in Keys : InLo(k, uop.lo) /\ InHi(k, uop.hi)}
      [] OTHER -> {}
\* what the keys of an operation become when it takes effect
FmApply(f, uop) ==
    CASE uop.op = "put"  -> [f EXCEPT ![uop.k] = {uop.c}]
      [] uop.op = "del"  -> [f EXCEPT ![uop.k] = {Absent}]
      [] uop.op = "delr" -> [k \in Keys |-> IF InLo(k, uop.lo) /\ InHi(k, uop.hi) THEN {Absent} ELSE f[k]]
      [] OTHER -> f
\* the operation that hit the fault: old or new value per key
FmFaulted(f, uop) == [k \in Keys |-> f[k] \cup FmApply(f, uop)[k]]
\* a LATER operation that returned normally.  A key that is still uncertain (old or new value of the failed
\* operation) stays uncertain when the later operation did not write it: a remove that reported "absent" and a
\* range removal that found nothing to remove log nothing, and the property lets such a key show either value
\* for good ("...hold either their old or their new value, and this stays true for all later operations").
Certain(f, k) == Cardinality(f[k]) = 1
FmLater(f, uop, res) ==
    CASE uop.op = "put" -> [f EXCEPT ![uop.k] = {uop.c}]
      [] uop.op = "del" -> IF res.val = "true" \/ Certain(f, uop.k) THEN [f EXCEPT ![uop.k] = {Absent}] ELSE f
      [] uop.op = "delr" -> [k \in Keys |-> IF InLo(k, uop.lo) /\ InHi(k, uop.hi)
                                            THEN (IF Certain(f, k) THEN {Absent} ELSE f[k] \cup {Absent}) ELSE f[k]]
      [] OTHER -> f
FaultFails(f2, ln) ==
    LET o == ln.obs IN
    UNION {
      Fail(ln.res.val # "panic", "C14:panic"),
      Fail(~o.open \/ \A k \in Keys : o.idx[k] \in f2[k], "C14:key-state"),
      Fail(~o.open \/ \A k \in Keys : o.get[k] = o.idx[k], "C14:unreadable"),
      IF ln.op.op \in {"open", "reopen"} /\ ~ln.fault.hit THEN Fail(ln.res.ok, "C14:open-failed-" \o ln.res.err) ELSE {},
      IF ~ln.fault.hit /\ o.open /\ ln.op.op \in {"put", "del", "delr", "ckpt", "abort"}
         THEN Fail(ln.res.ok, "C14:later-op-failed-" \o ln.res.err) ELSE {},
      \* C13 under one failing call: an abandoned transaction's staging file is gone unless the failing call was the
      \* unlink of that very file (CasFault: ab_unlink - the error is ignored and the file stays)
      IF ln.op.op = "abort" /\ o.open /\ ~(ln.fault.hit /\ ln.fault.call = "unlink") /\ ~sc.crashed
         THEN Fail(o.disk.stg = 0, "C13:staging-file-left-by-abandoned-transaction") ELSE {}
    }

\* C20 in the fault histories: snapshot plus log, decoded by the independent reader, equal the acknowledged history
\* (every key holds a value the history allows) - also right after a failed call, a burned version, a failed checkpoint
FaultDecodeFails(f2, d, n) ==
    LET r == Recover(d, n) IN
    Fail(r.ok /\ \A k \in Keys : r.idx[k] \in f2[k], "C20:decode-equals-history")

(***************************************************************************)
(* C10: a damaged log.  base = model before damage (its disk is the clean  *)
(* directory); P = longest prefix of the logged un-checkpointed records    *)
(* that is still intact in the damaged directory.                          *)
(***************************************************************************)
\* (ApplyRecs, IntactPrefix, PrefixState: module CasDamage, shared with the model check MCDamage)
DamageFails(base, ln) ==
    LET d  == DiskOfJson(ln.rec.disk)
        ex == PrefixState(base, d)
    IN  UNION {
          Fail(ln.rec.res.val # "panic", "C10:panic"),
          \* (blobs that later operations reclaimed cannot come back with a shortened log: only the
          \*  index state is required to be the prefix state, not the readability of its blobs)
          Fail(~ln.rec.res.ok \/ ln.rec.obs.idx = ex, "C10:accepted-non-prefix-state"),
          IF ln.rec.res.ok THEN CountFails(ln.rec.obs) ELSE {},
          \* BEYOND the listed properties (reported as a note, never as a violation): an accepted cut log is used - one put,
          \* a clean restart - and the restart must succeed and show what the handle showed
          IF "cont" \in DOMAIN ln.rec /\ ln.rec.cont.on
          THEN LET c == ln.rec.cont IN
               Fail(c.put.ok /\ c.reopen.ok /\ c.idx_after = c.idx_before /\ c.get_after = c.idx_after,
                    "BEYOND:store-unusable-after-an-accepted-cut-" \o (IF ~c.put.ok THEN "put-failed" ELSE IF ~c.reopen.ok THEN "reopen-failed-" \o c.reopen.err ELSE "state-changed"))
          ELSE {}
        }

(***************************************************************************)
(* C08: planted garbage.                                                   *)
(***************************************************************************)
\* the two other clean-ups, each on its own copy of the planted directory: quarantine_orphans (the orphans, and only
\* they, arrive in the quarantine directory under the name of their hash, bytes intact) and delete_orphan for every
\* named content (true exactly for the scanned orphans, which are gone afterwards; false the second time)
OtherCleanupFails(ln, o, dj, live) ==
    LET s == Scan(o.idx, SeqToSet(dj.cas), SeqToSet(dj.casbad), FALSE) IN
    UNION {
      IF ~ln.quar.on THEN {} ELSE
      LET q == ln.quar  qo == q.obs IN
      UNION {
        Fail(q.ok /\ q.errors = 0, "C08:quarantine-failed"),
        Fail(SeqToSet(q.moved) \ {"?"} = s.orphaned /\ Len(q.moved) = Cardinality(s.orphaned) + dj.casunk /\ q.n = Len(q.moved),
             "C08:quarantine-moved-set"),
        Fail(q.intact /\ q.strange = 0, "C08:quarantined-bytes"),
        Fail(qo.idx = o.idx, "C08:quarantine-changed-index"),
        Fail(\A c \in live : (c \in SeqToSet(dj.cas) => c \in SeqToSet(qo.disk.cas))
                            /\ (c \in SeqToSet(dj.casbad) => c \in SeqToSet(qo.disk.casbad)), "C08:quarantine-removed-live-blob"),
        Fail((SeqToSet(qo.disk.cas) \cup SeqToSet(qo.disk.casbad)) \subseteq live /\ qo.disk.casunk = 0, "C08:orphan-left-after-quarantine")
      },
      IF ~ln.one.on THEN {} ELSE
      LET w == ln.one  wo == w.obs IN
      UNION {
        Fail(\A i \in 1..Len(ContentSeq) : w.res[i] = (IF ContentSeq[i] \in s.orphaned THEN "true" ELSE "false"), "C08:delete_orphan-result"),
        Fail(\A i \in 1..Len(ContentSeq) : w.again[i], "C08:delete_orphan-second-call"),
        Fail(wo.idx = o.idx, "C08:delete_orphan-changed-index"),
        Fail(\A c \in live : (c \in SeqToSet(dj.cas) => c \in SeqToSet(wo.disk.cas))
                            /\ (c \in SeqToSet(dj.casbad) => c \in SeqToSet(wo.disk.casbad)), "C08:delete_orphan-removed-live-blob"),
        Fail((SeqToSet(wo.disk.cas) \cup SeqToSet(wo.disk.casbad)) \subseteq live, "C08:orphan-left-after-delete_orphan")
      }
    }

PlantFails(mb, ln) ==
    LET o  == ln.rec.obs
        dj == ln.rec.disk
        co == ln.cobs
        live == Live(o.idx)
    IN  UNION {
          Fail(ln.rec.res.ok, "C08:open-failed-" \o ln.rec.res.err),
          Fail(~ln.rec.res.ok \/ o.idx = mb.acked, "C08:index-changed"),
          IF ln.rec.res.ok THEN ScanFails(o, dj, ln.verify, "C08") ELSE {},
          \* Cas::open with fail_on_integrity_errors: refuses exactly when the (model's) scan has a missing or corrupted blob
          LET s == Scan(mb.acked, SeqToSet(dj.cas), SeqToSet(dj.casbad), ln.verify) IN
            IF ~o.orph.on THEN {} ELSE
            Fail(IF s.missing = {} /\ s.corrupted = {} THEN ln.strict.ok ELSE ~ln.strict.ok /\ ln.strict.err = "Integrity",
                 "C08:integrity-gate"),
          \* clean-up removes exactly the reported garbage and never harms live data
          Fail(ln.cres.ok, "C08:cleanup-failed"),
          Fail(co.idx = o.idx, "C08:cleanup-changed-index"),
          Fail(\A c \in live : (c \in SeqToSet(dj.cas) => c \in SeqToSet(co.disk.cas))
                              /\ (c \in SeqToSet(dj.casbad) => c \in SeqToSet(co.disk.casbad)), "C08:cleanup-removed-live-blob"),
          Fail((SeqToSet(co.disk.cas) \cup SeqToSet(co.disk.casbad)) \subseteq live /\ co.disk.casunk = 0, "C08:orphan-left"),
          Fail(co.disk.junk = 0, "C08:invalid-file-left"),
          Fail(co.disk.stg = 0, "C08:staging-left"),
          OtherCleanupFails(ln, o, dj, live)
        }

(***************************************************************************)
(* C19: settings / version gate.                                           *)
(***************************************************************************)
GateExpectOk(mb, ln) == ln.ver = DbVersion /\ ln.n2 = mb.n
GateFails(mb, ln) ==
    UNION {
      Fail(ln.res.val # "panic", "C19:panic"),
      Fail(ln.res.ok = GateExpectOk(mb, ln), "C19:admitted-or-rejected-wrongly"),
      IF ~ln.res.ok THEN Fail(ln.same, "C19:rejected-open-modified-directory") ELSE {}
    }

(***************************************************************************)
(* Block abstraction ("a multi-key range removal is one operation", also   *)
(* for more keys than the four of the model): a block of n concrete keys   *)
(* stands for ONE abstract key whose value is full / none / partial.  The  *)
(* model's removal takes full to none in one step (ApplyRmKeys), so an     *)
(* image taken inside it recovers to full or none; "partial" is no state   *)
(* of the model.  Two concrete keys outside the block stand for the other  *)
(* keys of the model.                                                      *)
(***************************************************************************)
BlockVal(left, n) == IF left = n THEN "full" ELSE IF left = 0 THEN "none" ELSE "partial"
BulkFails(ln) ==
    UNION {
      Fail(ln.rec.val # "panic", "C03:panic"),
      Fail(ln.phase = "reopen" \/ ln.rec.ok, "C03:open-after-crash-failed"),
      IF ln.rec.ok /\ ln.phase # "reopen"
      THEN Fail(BlockVal(ln.rec.left, ln.n) \in {"full", "none"}, "C03:range-removal-partially-visible")
           \cup Fail(ln.rec.outside, "C03:other-key-lost")
           \cup Fail(ln.rec.len = ln.rec.left + 2, "C03:foreign-key-visible")
      ELSE {},
      IF ln.phase = "done"
      THEN Fail(ln.res.ok /\ ln.res.n = ln.n /\ ln.rec.left = 0, "C03:range-removal-incomplete")
      ELSE {},
      \* C02: a clean restart after the (arbitrarily large) removal shows what the handle showed before it was dropped
      IF ln.phase = "reopen"
      THEN Fail(ln.rec.ok /\ ln.rec.left = ln.before.left /\ ln.rec.len = ln.before.len /\ ln.rec.outside = ln.before.outside,
                "C02:changed-by-reopen-after-range-removal")
      ELSE {}
    }

(**************************** the trace machine *****************************)
NoObs == [open |-> FALSE]
Init == l = 1 /\ m = InitState(2, {}) /\ pobs = NoObs /\ sc = [sid |-> "", mode |-> "plain", crashed |-> FALSE]
        /\ fm = [k \in Keys |-> {Absent}]

RECURSIVE JoinTags(_)
JoinTags(S) == IF S = {} THEN "" ELSE LET x == CHOOSE x \in S : TRUE IN x \o ";" \o JoinTags(S \ {x})
Report(tags) == IF tags = {} THEN TRUE ELSE PrintT("FAIL@" \o ToString(l) \o "@" \o ToString(sc.sid) \o "@" \o JoinTags(tags))

Line == Lines[l]

OnReset == /\ Line.ev = "reset"
           /\ m' = InitState(CfgN(Line.cfg), BigK(Line.cfg))
           /\ sc' = [sid |-> Line.sid, mode |-> Line.mode, crashed |-> FALSE]
           /\ pobs' = NoObs /\ fm' = [k \in Keys |-> {Absent}]

OnOp == /\ Line.ev = "op" /\ sc.mode # "fault"
        /\ LET m2 == RunOp(m, Line.op) IN
           /\ Report(OpFails(m, Line.op, Line.res, Line.obs, pobs, TRUE, TRUE))
           /\ m' = m2
        /\ pobs' = Line.obs /\ UNCHANGED <<sc, fm>>

OnImg == /\ Line.ev = "img"
         /\ Report(ImgFails(m, Line.op, Line.rec, Line.lost, IF Line.lost = <<>> THEN "C03" ELSE "C09"))
         /\ UNCHANGED <<m, pobs, sc, fm>>

OnFaultOp == /\ Line.ev = "op" /\ sc.mode = "fault"
             /\ LET f2 == IF Line.fault.hit THEN FmFaulted(fm, Line.op)
                          ELSE IF Line.res.ok THEN FmLater(fm, Line.op, Line.res) ELSE FmFaulted(fm, Line.op) IN
                \* C20 speaks of every instant of every history: also after a failed call the log on disk is well-formed
                /\ Report(FaultFails(f2, Line) \cup WellFormedFails(DiskOfJson(Line.obs.disk), m.n) \cup BlobFails(Line.obs.disk)
                          \cup FaultDecodeFails(f2, DiskOfJson(Line.obs.disk), m.n))
                /\ fm' = f2
             \* (in fault histories sc.crashed remembers that the one failing call was an unlink: the file it named stays)
             /\ sc' = [sc EXCEPT !.crashed = @ \/ (Line.fault.hit /\ Line.fault.call = "unlink")]
             /\ UNCHANGED <<m, pobs>>

\* the directory that is about to be damaged (a cleanly closed store or a crash image) is kept in pobs
OnDmgBase == Line.ev = "dmgbase" /\ pobs' = [open |-> FALSE, disk |-> Line.disk] /\ UNCHANGED <<m, sc, fm>>
OnDmg     == Line.ev = "dmg" /\ Report(DamageFails(DiskOfJson(pobs.disk), Line)) /\ UNCHANGED <<m, pobs, sc, fm>>
OnPlant   == Line.ev = "plant" /\ Report(PlantFails(m, Line)) /\ UNCHANGED <<m, pobs, sc, fm>>
OnGate    == /\ Line.ev = "gate" /\ Report(GateFails(m, Line))
             /\ m' = IF Line.res.ok THEN RunOp(m, [op |-> "reopen"]) ELSE m
             /\ UNCHANGED <<pobs, sc, fm>>

OnBulk    == Line.ev = "bulk" /\ Report(BulkFails(Line)) /\ UNCHANGED <<m, pobs, sc, fm>>

Next == l <= Len(Lines) /\ l' = l + 1
        /\ (OnReset \/ OnOp \/ OnImg \/ OnFaultOp \/ OnDmgBase \/ OnDmg \/ OnPlant \/ OnGate \/ OnBulk)

Spec == Init /\ [][Next]_vars

\* acceptance: every line was consumed
AllConsumed == IF TLCGet("stats").diameter - 1 = Len(Lines) THEN TRUE ELSE PrintT("UNCONSUMED@" \o ToString(TLCGet("stats").diameter) \o "@" \o ToString(Len(Lines))) /\ FALSE
=============================================================================
