------------------------------- MODULE CasLock -------------------------------
(* C11: who may own a database directory.  A handle is one successful or attempted open; the     *)
(* flock taken in CasInner::new lives as long as ANY Arc of the CasInner does: the Cas value, its *)
(* clones, or an OrphanStats.  Processes die without running destructors (Kill).                  *)
(* Open is modelled in the steps of the code: mkdirs (no-ops on an existing store), open of LOCK  *)
(* (O_CREAT|O_TRUNC on an always-empty file), flock(LOCK_EX|LOCK_NB) - atomic in the kernel -,    *)
(* then either the rest of recovery (which may write) or the AlreadyOpened return.                *)
EXTENDS Integers, Sequences, FiniteSets, TLC
CONSTANTS NP, NH          \* processes, handles
Procs == 1..NP
Handles == 1..NH

NoHandle == [st |-> "none", p |-> 0, cas |-> FALSE, clones |-> 0, stats |-> FALSE, wrote |-> FALSE]
LockInit == [holder |-> 0, hs |-> [h \in Handles |-> NoHandle]]

Alive(x) == x.cas \/ x.clones > 0 \/ x.stats
Release(s) == IF s.holder # 0 /\ ~Alive(s.hs[s.holder]) THEN [s EXCEPT !.holder = 0] ELSE s

\* one complete API-level action; result [s, res]
Act(s, a, h, p) ==
    \* "openalias": the same directory reached through another path name (a symbolic link, a path with "." components):
    \* ownership belongs to the directory, not to the spelling of its path
    CASE a \in {"open", "openstats", "openasync", "openalias"} ->
            IF s.holder = 0
            THEN [s |-> [s EXCEPT !.holder = h,
                                  !.hs[h] = [st |-> "open", p |-> p, cas |-> (a # "openstats"), clones |-> 0, stats |-> TRUE, wrote |-> TRUE]],
                  res |-> "ok"]
            ELSE [s |-> [s EXCEPT !.hs[h] = IF h = s.holder THEN @ ELSE [NoHandle EXCEPT !.st = "failed", !.p = p]], res |-> "AlreadyOpened"]
      \* an open whose settings the store rejects (another num_ops_per_wal than the directory was created with): while the
      \* directory is owned it loses like any other open - the lock is taken before the settings are even read -, and when
      \* the directory is free it is rejected by the settings gate (C19) and does not become the owner
      [] a = "openbad" ->
            IF s.holder = 0 THEN [s |-> [s EXCEPT !.hs[h] = [NoHandle EXCEPT !.st = "failed", !.p = p]], res |-> "Settings:ValidationFailed"]
            ELSE [s |-> [s EXCEPT !.hs[h] = IF h = s.holder THEN @ ELSE [NoHandle EXCEPT !.st = "failed", !.p = p]], res |-> "AlreadyOpened"]
      [] a = "clone" -> IF s.hs[h].cas THEN [s |-> [s EXCEPT !.hs[h].clones = @ + 1], res |-> "ok"] ELSE [s |-> s, res |-> "nohandle"]
      [] a = "dropclone" -> IF s.hs[h].clones > 0 THEN [s |-> Release([s EXCEPT !.hs[h].clones = @ - 1]), res |-> "ok"] ELSE [s |-> s, res |-> "nohandle"]
      [] a = "dropcas" -> IF s.hs[h].st = "open" THEN [s |-> Release([s EXCEPT !.hs[h].cas = FALSE]), res |-> "ok"] ELSE [s |-> s, res |-> "nohandle"]
      [] a = "drop" -> [s |-> Release([s EXCEPT !.hs[h] = NoHandle]), res |-> "ok"]
      \* the owner drops its handle and opens again at once (repeatedly): it stays the owner
      [] a = "cycle" -> IF s.holder = h \/ s.holder = 0
                        THEN [s |-> [s EXCEPT !.holder = h, !.hs[h] = [st |-> "open", p |-> p, cas |-> TRUE, clones |-> 0, stats |-> TRUE, wrote |-> TRUE]], res |-> "ok"]
                        ELSE [s |-> s, res |-> "AlreadyOpened"]
      \* the owner runs the orphan clean-up of its OrphanStats (delete_orphans, then quarantine_orphans): whatever it removes,
      \* the directory stays owned
      [] a = "cleanup" -> IF s.hs[h].st = "open" /\ s.hs[h].stats THEN [s |-> s, res |-> "ok"] ELSE [s |-> s, res |-> "nohandle"]
      [] a = "spawn" -> [s |-> s, res |-> "ok"]      \* a grandchild process: no handle, must not keep the lock alive
      [] a = "put" -> IF s.hs[h].cas \/ s.hs[h].clones > 0 THEN [s |-> s, res |-> "ok"] ELSE [s |-> s, res |-> "nohandle"]
      [] a = "kill" -> [s |-> Release([s EXCEPT !.hs = [x \in Handles |-> IF s.hs[x].p = p THEN NoHandle ELSE s.hs[x]]]), res |-> "ok"]

\* at most one owner; a failed open wrote nothing
OneOwner(s) == Cardinality({h \in Handles : s.hs[h].st = "open" /\ Alive(s.hs[h])}) <= 1
HolderConsistent(s) == (s.holder = 0) = ({h \in Handles : s.hs[h].st = "open" /\ Alive(s.hs[h])} = {})
LoserWroteNothing(s) == \A h \in Handles : s.hs[h].st = "failed" => ~s.hs[h].wrote
=============================================================================
