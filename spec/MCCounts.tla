------------------------------- MODULE MCCounts -------------------------------
(* C12 for histories of ANY length (fixed key and content sets): the bookkeeping of apply_logical_op is an     *)
(* inductive invariant.  Every index state that satisfies the invariant is an initial state (the invariant      *)
(* determines refc/u/b from idx, so these are exactly the records IxOf(idx)), and every operation is applied     *)
(* to every one of them: TLC checks  Inv /\ Next => Inv'  exhaustively, not just on reachable states.           *)
EXTENDS CasModel
VARIABLE ix

Subseqs == UNION {[1..n -> Keys] : n \in 0..NK}                          \* key lists of a Remove (with repetitions)
Ops == {PutOp(k, c) : k \in Keys, c \in AllContents} \cup {RmOp(ks) : ks \in Subseqs}

Init == \E idx \in [Keys -> AllContents \cup {Absent}] : ix = IxOf(idx)
Next == \E op \in Ops : ix' = [ApplyOp(ix, op) EXCEPT !.unref = <<>>]
Spec == Init /\ [][Next]_ix

Inv_C12_Inductive == /\ ix.refc = RefCounts(ix.idx)
                     /\ ix.u = UniqueBlobs(ix.idx)
                     /\ ix.b = TotalBytes(ix.idx)
\* the unreferenced list of an operation is exactly the set of contents that lost their last reference, each once
Unref_C07 == [][\A op \in Ops : LET x == ApplyOp(ix, op) IN
                   /\ {x.unref[i] : i \in 1..Len(x.unref)} = Live(ix.idx) \ Live(x.idx)
                   /\ Len(x.unref) = Cardinality(Live(ix.idx) \ Live(x.idx))]_ix
=============================================================================
