------------------------------- MODULE MCConc -------------------------------
(* Exhaustive exploration of CasConc: every interleaving of small concurrent programs over all      *)
(* initial maps.  Programs and the initial map are chosen in Init, so one run covers all of them.   *)
EXTENDS CasConc, Json
CONSTANTS NT, OpsPerThread, ProgKeys, ProgContents, WalN, WithReads, WithCleanup, WithCkpt, WithGuard, WithFail
VARIABLES s, hist   \* hist: the schedule (thread ids) so far - hidden by View, printed by the generator config

OpMenu == {[op |-> "put", k |-> k, c |-> c] : k \in ProgKeys, c \in ProgContents}
     \cup {[op |-> "del", k |-> k] : k \in ProgKeys}
     \cup {[op |-> "delr", lo |-> <<"U", 0>>, hi |-> <<"U", 0>>]}
     \cup (IF WithReads THEN {[op |-> "get", k |-> k] : k \in ProgKeys} ELSE {})
     \cup (IF WithCkpt THEN {[op |-> "ckpt"]} ELSE {})
     \cup (IF WithCleanup THEN {[op |-> "cleanup"]} ELSE {})
     \* a commit whose rename fails after its intent was registered (the reverted commit must not take anybody else's protection)
     \cup (IF WithFail THEN {[op |-> "putfail", k |-> k, c |-> c] : k \in ProgKeys, c \in ProgContents} ELSE {})

\* WithGuard: thread 1 keeps an index read guard alive across a read of its own (finding F6)
GuardProg == <<[op |-> "guard"], [op |-> "get", k |-> 1], [op |-> "unguard"]>>
Progs == IF WithGuard THEN {[t \in 1..NT |-> IF t = 1 THEN GuardProg ELSE pr[t]] : pr \in [1..NT -> [1..OpsPerThread -> OpMenu]]}
         ELSE [1..NT -> [1..OpsPerThread -> OpMenu]]
InitMaps == [Keys -> ProgContents \cup {Absent}]

\* symmetry breaking: thread programs in non-decreasing order is not expressible cheaply; all are explored
Init == \E pr \in Progs, im \in InitMaps :
           /\ \A k \in Keys : k \notin ProgKeys => im[k] = Absent
           /\ hist = [im |-> im, sched |-> <<>>]
           /\ s = ConcInit(WalN, im, Live(im) \cup (IF WithCleanup THEN {"C"} ELSE {}), 3,
                           IF WithCleanup THEN <<"C">> ELSE <<>>, pr)

\* (the in-memory apply M:apply is no scheduling step of the real threads - there is no yield point in front of it -, so it
\*  is not part of the recorded schedule)
Step(t) == Enabled(s, t) /\ s' = StepT(s, t) /\ hist' = IF s.th[t].pc = "M:apply" THEN hist ELSE [hist EXCEPT !.sched = Append(@, t)]
QueueW(t) == CanQueue(s, t) /\ s' = Queue(s, t) /\ hist' = [hist EXCEPT !.sched = Append(@, 0 - t)]
Next == (\E t \in Threads(s) : Step(t) \/ QueueW(t)) \/ (AllDone(s) /\ UNCHANGED <<s, hist>>)
Spec == Init /\ [][Next]_<<s, hist>>
FairSpec == Spec /\ \A t \in 1..NT : WF_<<s, hist>>(Step(t))

\* generator: one line per completed behaviour (used with -simulate)
EmitSchedule == AllDone(s) => PrintT("CSCHED@" \o ToJson([im |-> hist.im, threads |-> s.prog, sched |-> hist.sched]))

Inv_C04 == C04_NoDangling(s)
Inv_C05 == C05_ReadOk(s)
Inv_C07 == C07_QuiescentExact(s)
Inv_C15 == C15_LockOrderAcyclic(s)
Inv_C03x == C03x_KillSafe(s)
Live_C15 == <>[](AllDone(s))
\* the ghost edge set and the read monitor do not influence behaviour
View == [s EXCEPT !.edges = {}]   \* hist is not part of the view
=============================================================================
