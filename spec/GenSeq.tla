------------------------------- MODULE GenSeq -------------------------------
(***************************************************************************)
(* Scenario generator (spec -> impl direction).  The API-level graph of    *)
(* CasSteps (every operation run to completion with RunOp) is explored by  *)
(* TLC; h is the history that led to the model state ms.                   *)
(*  - with VIEW ViewAll every history up to MaxLen is a distinct state:    *)
(*    exhaustive enumeration of histories;                                 *)
(*  - with VIEW ViewState states are identified by the model state only,   *)
(*    BFS keeps the shortest history per state, and one line is printed    *)
(*    per explored TRANSITION: a transition cover of the quiescent graph.  *)
(* One line "SCEN@<json ops>" is printed per scenario.                     *)
(***************************************************************************)
EXTENDS CasSteps, Json
CONSTANTS MaxLen, WalN, GenKeys, GenContents, AbortOn, CleanupOn, LeafOnly, Ranges
VARIABLES h, ms

Bounds == {<<"U", 0>>} \cup ({"I", "X"} \X GenKeys)
AllRanges == { r \in Bounds \X Bounds :
                 \/ r[1][1] = "U" \/ r[2][1] = "U"
                 \/ r[1][2] < r[2][2]
                 \/ r[1][2] = r[2][2] /\ ~(r[1][1] = "X" /\ r[2][1] = "X") }

FewRanges == { << <<"U", 0>>, <<"U", 0>> >>, << <<"I", 1>>, <<"X", 2>> >>, << <<"X", 1>>, <<"U", 0>> >>, << <<"U", 0>>, <<"I", 1>> >> }
OneRange == { << <<"U", 0>>, <<"U", 0>> >> }

Menu == {[op |-> "put", k |-> k, c |-> c] : k \in GenKeys, c \in GenContents}
   \cup (IF AbortOn THEN {[op |-> "abort", k |-> 1, c |-> c] : c \in GenContents} ELSE {})
   \cup {[op |-> "del", k |-> k] : k \in GenKeys}
   \cup {[op |-> "delr", lo |-> r[1], hi |-> r[2]] : r \in Ranges}
   \cup {[op |-> "ckpt"], [op |-> "reopen"]}
   \cup (IF CleanupOn THEN {[op |-> "cleanup"]} ELSE {})

Init == h = <<>> /\ ms = RunOp(InitState(WalN, {}), [op |-> "open"])

Emit(hist) == PrintT("SCEN@" \o ToJson(hist))

Next == /\ Len(h) < MaxLen
        /\ \E u \in Menu :
              /\ h' = Append(h, u)
              /\ ms' = RunOp(ms, u)
              /\ IF LeafOnly /\ Len(h') < MaxLen THEN TRUE ELSE Emit(h')

Spec == Init /\ [][Next]_<<h, ms>>
ViewAll == <<h, ms>>
ViewState == ms
=============================================================================
