------------------------------ MODULE CasModel ------------------------------
(***************************************************************************)
(* Shared, variable-free definitions of the cassadilia model.              *)
(*                                                                         *)
(* Abstract domains                                                        *)
(*   keys      1..NK (the concretisation keeps the order per key type)     *)
(*   contents  names "A".."G"; a content's name stands for its BLAKE3 hash *)
(*             (hash collisions do not exist in the model); SizeOf is the  *)
(*             byte length of the concrete content the harness uses        *)
(*   versions  1,2,...  ; 0 stands for "none"                              *)
(* The operators are written in the shape of the Rust functions they       *)
(* transcribe (named in the comments).                                     *)
(***************************************************************************)
EXTENDS Naturals, Integers, Sequences, FiniteSets, TLC

CONSTANT NK            \* number of abstract keys

Keys     == 1..NK
Absent   == "-"
AllContents == {"A", "B", "C", "E", "G", "H", "M", "X"}
ContentSeq  == <<"A", "B", "C", "E", "G", "H", "M", "X">>
SizeOf   == [A |-> 11, B |-> 1, C |-> 8192, E |-> 0, G |-> 70000, H |-> 300000, M |-> 1200000, X |-> 4194304]
NoOp     == [op |-> "none"]
DbVersion == 4

EmptyIdx == [k \in Keys |-> Absent]
ZeroRefc == [c \in AllContents |-> 0]

Max(a, b) == IF a >= b THEN a ELSE b
Min(a, b) == IF a <= b THEN a ELSE b
Range(f) == {f[x] : x \in DOMAIN f}

(* WalManager::segment_id_for_op_version *)
SegOf(v, n) == (v - 1) \div n

(***************************************************************************)
(* Operations as they appear in the log.                                   *)
(***************************************************************************)
PutOp(k, c) == [op |-> "put", k |-> k, c |-> c, sz |-> SizeOf[c]]
RmOp(ks)    == [op |-> "rm", ks |-> ks]

(***************************************************************************)
(* IndexState::apply_logical_op.  x = [idx, refc, u, b]; result adds unref *)
(* (the list of contents whose count reached zero, in that order).         *)
(***************************************************************************)
IncRef(x, c) ==
    [x EXCEPT !.refc[c] = @ + 1,
              !.u = IF x.refc[c] = 0 THEN @ + 1 ELSE @,
              !.b = IF x.refc[c] = 0 THEN @ + SizeOf[c] ELSE @]

\* decrement_ref + the caller's statistics update; returns <<state, dropped>>
DecRef(x, c) ==
    LET dropped == x.refc[c] = 1 IN
    << [x EXCEPT !.refc[c] = @ - 1,
                 !.u = IF dropped THEN @ - 1 ELSE @,
                 !.b = IF dropped THEN @ - SizeOf[c] ELSE @],
       dropped >>

ApplyPut(x, k, c) ==
    LET prev == x.idx[k] IN
    IF prev = Absent THEN
        [IncRef([x EXCEPT !.idx[k] = c], c) EXCEPT !.unref = <<>>]
    ELSE IF prev # c THEN
        LET d  == DecRef([x EXCEPT !.idx[k] = c], prev)
            x2 == IncRef(d[1], c)
        IN  [x2 EXCEPT !.unref = IF d[2] THEN <<prev>> ELSE <<>>]
    ELSE [x EXCEPT !.unref = <<>>]

RECURSIVE ApplyRmKeys(_, _)
ApplyRmKeys(x, ks) ==
    IF ks = <<>> THEN x
    ELSE LET k == Head(ks) IN
         IF x.idx[k] = Absent THEN ApplyRmKeys(x, Tail(ks))
         ELSE LET d == DecRef([x EXCEPT !.idx[k] = Absent], x.idx[k])
                  x2 == IF d[2] THEN [d[1] EXCEPT !.unref = Append(@, x.idx[k])] ELSE d[1]
              IN  ApplyRmKeys(x2, Tail(ks))

ApplyOp(x, op) ==
    IF op.op = "put" THEN ApplyPut(x, op.k, op.c)
    ELSE IF op.op = "rm" THEN ApplyRmKeys([x EXCEPT !.unref = <<>>], op.ks)
    ELSE [x EXCEPT !.unref = <<>>]

\* the plain ordered map: what a user thinks an operation does
MapApply(idx, op) ==
    IF op.op = "put" THEN [idx EXCEPT ![op.k] = op.c]
    ELSE IF op.op = "rm" THEN [k \in Keys |-> IF \E i \in 1..Len(op.ks) : op.ks[i] = k THEN Absent ELSE idx[k]]
    ELSE idx

(* from-scratch definitions: recompute_stats / the persister's load loop *)
RefCounts(idx) == [c \in AllContents |-> Cardinality({k \in Keys : idx[k] = c})]
Live(idx)      == {idx[k] : k \in Keys} \ {Absent}
RECURSIVE SumSizes(_)
SumSizes(S) == IF S = {} THEN 0 ELSE LET c == CHOOSE c \in S : TRUE IN SizeOf[c] + SumSizes(S \ {c})
UniqueBlobs(idx) == Cardinality(Live(idx))
TotalBytes(idx)  == SumSizes(Live(idx))

IxOf(idx) == [idx |-> idx, refc |-> RefCounts(idx), u |-> UniqueBlobs(idx), b |-> TotalBytes(idx), unref |-> <<>>]
EmptyIx == IxOf(EmptyIdx)

(***************************************************************************)
(* Log items: what a segment file contains, as classified by an           *)
(* independent decoder of the documented format.                           *)
(*   rec  - complete record, checksum valid, payload decodes               *)
(*   hdr  - complete 44-byte header whose payload is (partly) missing      *)
(*   torn - fewer than 44 bytes                                            *)
(*   bad  - complete record whose checksum does not match, or whose        *)
(*          payload does not decode                                        *)
(*   sent - all-zero header (end marker)     zver - version field zero     *)
(*   zlen - header with length zero                                        *)
(***************************************************************************)
Rec(v, op) == [t |-> "rec", v |-> v, op |-> op]
Hdr(v)     == [t |-> "hdr", v |-> v]
Bad(v)     == [t |-> "bad", v |-> v]
Torn       == [t |-> "torn"]
Sent       == [t |-> "sent"]

(* SegmentReader::read_next_entry, iterated: records until a stop; err = the reader failed *)
RECURSIVE ReadSeg(_)
ReadSeg(items) ==
    IF items = <<>> THEN [recs |-> <<>>, err |-> FALSE]
    ELSE LET it == Head(items) IN
         IF it.t = "rec" THEN LET r == ReadSeg(Tail(items)) IN [r EXCEPT !.recs = <<it>> \o @]
         ELSE IF it.t \in {"hdr", "bad"} THEN [recs |-> <<>>, err |-> TRUE]
         ELSE [recs |-> <<>>, err |-> FALSE]       \* torn, sent, zver, zlen: clean end of THIS segment

SortedIds(S) == LET RECURSIVE Srt(_)
                    Srt(T) == IF T = {} THEN <<>> ELSE LET m == CHOOSE x \in T : \A y \in T : x <= y IN <<m>> \o Srt(T \ {m})
                IN Srt(S)

(* WalReplayer::replay over all segment files in id order.                 *)
(* Result: ok, ix (index after applying records with v > snapVer), highest, count *)
RECURSIVE ReplayRecs(_, _, _)
ReplayRecs(acc, recs, snapVer) ==
    IF recs = <<>> THEN acc
    ELSE LET r == Head(recs)
             a1 == [acc EXCEPT !.highest = Max(@, r.v)]
             a2 == IF r.v <= snapVer THEN a1
                   ELSE [a1 EXCEPT !.ix = ApplyOp(@, r.op), !.count = @ + 1]
         IN  ReplayRecs(a2, Tail(recs), snapVer)

RECURSIVE ReplaySegs(_, _, _, _)
ReplaySegs(acc, ids, segs, snapVer) ==
    IF ids = <<>> \/ ~acc.ok THEN acc
    ELSE LET rd == ReadSeg(segs[Head(ids)])
             a1 == ReplayRecs(acc, rd.recs, snapVer)
         IN  IF rd.err THEN [a1 EXCEPT !.ok = FALSE]      \* error surfaces after the records before it were applied
             ELSE ReplaySegs(a1, Tail(ids), segs, snapVer)

Replay(snapIdx, snapVer, segs) ==
    ReplaySegs([ok |-> TRUE, ix |-> IxOf(snapIdx), highest |-> snapVer, count |-> 0],
               SortedIds(DOMAIN segs), segs, snapVer)

\* the records of a log applied to an index, skipping those a snapshot of version snapVer already contains
RECURSIVE ApplyRecs(_, _, _)
ApplyRecs(x, recs, snapVer) ==
    IF recs = <<>> THEN x
    ELSE ApplyRecs(IF Head(recs).v > snapVer THEN ApplyOp(x, Head(recs).op) ELSE x, Tail(recs), snapVer)

(***************************************************************************)
(* Index::load on a disk value d = [settings, snap, segs, ...] opened with *)
(* num_ops_per_wal = n.  Read-only part of recovery.                       *)
(***************************************************************************)
\* file values are records of one shape each (TLC cannot compare a record with a string)
NoSettings == [st |-> "none", ver |-> 0, n |-> 0]
FullSettings(n) == [st |-> "full", ver |-> DbVersion, n |-> n]
NoSnap    == [st |-> "none", ver |-> 0, idx |-> EmptyIdx]
EmptySnap == [st |-> "empty", ver |-> 0, idx |-> EmptyIdx]      \* file exists with length 0
FullSnap(ver, idx) == [st |-> "full", ver |-> ver, idx |-> idx]

SettingsOk(d, n) == d.settings.st = "none" \/ (d.settings.ver = DbVersion /\ d.settings.n = n)

Recover(d, n) ==
    IF ~SettingsOk(d, n) THEN [ok |-> FALSE, why |-> "settings"]
    ELSE IF d.snap.st = "empty" THEN [ok |-> FALSE, why |-> "emptyindex"]
    ELSE LET sidx == d.snap.idx
             sver == d.snap.ver
             r    == Replay(sidx, sver, d.segs)
         IN  IF ~r.ok THEN [ok |-> FALSE, why |-> "replay"]
             ELSE [ok |-> TRUE, idx |-> r.ix.idx, ix |-> r.ix, snapVer |-> sver,
                   nextVer |-> r.highest + 1, count |-> r.count]

(***************************************************************************)
(* scan_orphans on an index and the cas/ staging/ contents.                *)
(*   casOk   - contents with a file at the canonical path, bytes intact    *)
(*   casBad  - contents with a file at the canonical path, bytes/size wrong*)
(***************************************************************************)
Scan(idx, casOk, casBad, verify) ==
    [orphaned  |-> (casOk \cup casBad) \ Live(idx),
     missing   |-> Live(idx) \ (casOk \cup casBad),
     corrupted |-> IF verify THEN casBad \cap Live(idx) ELSE {}]

(***************************************************************************)
(* C20 well-formedness of a disk value, for an independent reader.         *)
(***************************************************************************)
SegRecs(items) == SelectSeq(items, LAMBDA it : it.t = "rec")

\* complete records only, plus at most one trailing end marker
SegmentWellFormed(items) ==
    \A i \in 1..Len(items) :
        \/ items[i].t = "rec"
        \/ items[i].t = "sent" /\ i = Len(items)

AllRecs(segs) == LET RECURSIVE Cat(_)
                     Cat(ids) == IF ids = <<>> THEN <<>> ELSE SegRecs(segs[Head(ids)]) \o Cat(Tail(ids))
                 IN Cat(SortedIds(DOMAIN segs))

VersionsIncreasing(segs) ==
    LET rs == AllRecs(segs) IN \A i \in 1..(Len(rs) - 1) : rs[i].v < rs[i + 1].v

VersionsInRange(segs, n) ==
    \A id \in DOMAIN segs : \A i \in 1..Len(segs[id]) :
        segs[id][i].t = "rec" => SegOf(segs[id][i].v, n) = id

RecVersions(segs) == {r.v : r \in Range(AllRecs(segs))}
=============================================================================
