#!/bin/sh
# Offline build of the verification framework: shim, harness (against /repo with feature verif), spec parse.
set -e
cd "$(dirname "$0")"
gcc -O1 -shared -fPIC -o shim/libfsshim.so shim/fsshim.c -ldl -lpthread
[ -f harness/Cargo.lock ] || cp /repo/Cargo.lock harness/Cargo.lock
(cd harness && CARGO_NET_OFFLINE=true cargo build --offline --quiet)
for m in MCSteps TraceSeq GenSeq MCConc TraceConc MCRange MCBlob MCCodec TraceVec MCLock TraceLock MCPower MCDamage MCFault MCCounts; do
  (cd spec && tla-sany $m.tla 2>&1 | grep -q "Semantic processing of module $m") || { echo "SANY failed on $m"; exit 1; }
done
echo "setup ok"
