//! casharn: drives the real cassadilia crate for the TLA+ conformance checks (see /verif/DESIGN.md).
#![allow(dead_code)]
#[macro_use]
mod gamma;
mod lockp;
mod alpha;
mod conc;
mod damage;
mod seq;
mod shim;
mod store;
mod vecs;
mod watchdog;

#[global_allocator]
static ALLOC: vecs::Counting = vecs::Counting;

use std::fs;
use std::io::{BufRead, BufReader, Write};
use std::path::PathBuf;

use serde_json::Value;

fn arg(args: &[String], name: &str) -> Option<String> {
    args.iter().position(|a| a == name).and_then(|p| args.get(p + 1).cloned())
}

fn run_one<K: gamma::HKey>(sc: &Value, scratch: &std::path::Path, out: &mut seq::Out) {
    seq::run_scenario::<K>(sc, scratch, out);
}

fn run_conc<K: gamma::HKey>(sc: &Value, scratch: &std::path::Path, out: &mut seq::Out) {
    conc::run_conc_scenario::<K>(sc, scratch, out);
}

fn main() {
    let args: Vec<String> = std::env::args().collect();
    let cmd = args.get(1).map(String::as_str).unwrap_or("");
    // Logging is part of the environment: with a subscriber at TRACE level every field expression of every tracing call in
    // the crate is evaluated (Debug impls that take locks, slicing in a format argument, ...). The output goes nowhere.
    if std::env::var("CASHARN_TRACE").as_deref() != Ok("0") {
        let _ = tracing_subscriber::fmt().with_max_level(tracing::Level::TRACE).with_writer(std::io::sink).try_init();
    }
    match cmd {
        "seq" => {
            let inp = arg(&args, "--in").expect("--in");
            let outp = arg(&args, "--out").expect("--out");
            let scratch = PathBuf::from(arg(&args, "--scratch").expect("--scratch"));
            let shard: (usize, usize) = arg(&args, "--shard")
                .map(|s| {
                    let (a, b) = s.split_once('/').unwrap();
                    (a.parse().unwrap(), b.parse().unwrap())
                })
                .unwrap_or((0, 1));
            fs::create_dir_all(&scratch).unwrap();
            let mut out = seq::Out { w: std::io::BufWriter::new(fs::File::create(&outp).unwrap()), lines: 0 };
            watchdog::start(format!("{outp}.hang"));
            let f = BufReader::new(fs::File::open(&inp).unwrap());
            let mut n = 0;
            for (i, line) in f.lines().enumerate() {
                let line = line.unwrap();
                if line.trim().is_empty() || i % shard.1 != shard.0 {
                    continue;
                }
                let sc: Value = serde_json::from_str(&line).expect("scenario json");
                let mode = sc["env"]["mode"].as_str().unwrap_or("plain");
                if (!["plain", "damage", "plant", "gate", "conc"].contains(&mode) || sc["env"]["crash"].is_string()) && !shim::available() {
                    eprintln!("casharn: mode {mode} needs LD_PRELOAD=libfsshim.so");
                    std::process::exit(2);
                }
                watchdog::scenario(&sc["id"].to_string());
                let kt = sc["cfg"]["kt"].as_str().unwrap_or("string").to_string();
                if mode == "conc" {
                    with_key_type!(kt.as_str(), run_conc, &sc, &scratch, &mut out);
                } else {
                    with_key_type!(kt.as_str(), run_one, &sc, &scratch, &mut out);
                }
                n += 1;
                out.w.flush().unwrap();
            }
            out.w.flush().unwrap();
            let _ = fs::remove_dir_all(&scratch);
            eprintln!("casharn seq: {n} scenarios, {} lines", out.lines);
        }
        "lockchild" => {
            lockp::child_main(std::path::Path::new(&args[2]));
        }
        "lock" => {
            let inp = arg(&args, "--in").expect("--in");
            let outp = arg(&args, "--out").expect("--out");
            let scratch = PathBuf::from(arg(&args, "--scratch").expect("--scratch"));
            let shim_so = arg(&args, "--shim");
            fs::create_dir_all(&scratch).unwrap();
            let mut out = seq::Out { w: std::io::BufWriter::new(fs::File::create(&outp).unwrap()), lines: 0 };
            for line in BufReader::new(fs::File::open(&inp).unwrap()).lines() {
                let line = line.unwrap();
                if line.trim().is_empty() {
                    continue;
                }
                let sc: Value = serde_json::from_str(&line).unwrap();
                lockp::run_lock_scenario(&sc, &scratch, &mut out, shim_so.as_deref());
            }
            out.w.flush().unwrap();
            let _ = fs::remove_dir_all(&scratch);
            eprintln!("casharn lock: {} lines", out.lines);
        }
        "vec" => {
            let what = arg(&args, "--what").expect("--what");
            let outp = arg(&args, "--out").expect("--out");
            let scratch = PathBuf::from(arg(&args, "--scratch").expect("--scratch"));
            let tier = arg(&args, "--tier").unwrap_or("quick".into());
            let seed: u64 = arg(&args, "--seed").and_then(|s| s.parse().ok()).unwrap_or(1);
            fs::create_dir_all(&scratch).unwrap();
            let mut out = seq::Out { w: std::io::BufWriter::new(fs::File::create(&outp).unwrap()), lines: 0 };
            vecs::set_marker_path(PathBuf::from(format!("{outp}.cur")));
            // a panic raised INSIDE the library (its location is a source file of the crate under test, not of this harness)
            // outside a catch_unwind ends the process: the driver must be able to tell it from a defect of the harness
            let pfile = format!("{outp}.panic");
            let prev = std::panic::take_hook();
            std::panic::set_hook(Box::new(move |info| {
                if let Some(l) = info.location() {
                    let _ = fs::write(&pfile, serde_json::json!({"file": l.file(), "line": l.line(), "msg": info.to_string()}).to_string());
                }
                prev(info);
            }));
            match what.as_str() {
                "range" => vecs::run_range(&scratch, &mut out, &tier, seed),
                "blob" => vecs::run_blob(&scratch, &mut out, &tier, seed),
                "codec" => vecs::run_codec(&scratch, &mut out, &tier, seed),
                other => panic!("unknown --what {other}"),
            }
            out.w.flush().unwrap();
            vecs::clear_marker();
            let _ = fs::remove_dir_all(&scratch);
            eprintln!("casharn vec {what}: {} lines", out.lines);
        }
        _ => {
            eprintln!("usage: casharn seq --in scenarios.jsonl --out trace.ndjson --scratch DIR [--shard i/n]");
            std::process::exit(2);
        }
    }
}
