//! Sequential scenarios on the real code: API-level observation (mode A), crash images at every
//! filesystem-call boundary with nested recovery (mode B), power-loss images, injected faults (B'),
//! damaged logs, planted garbage, settings gate.  Output: ndjson trace for the TLA+ trace specs.

use std::collections::HashMap;
use std::fs;
use std::io::Write;
use std::panic::{AssertUnwindSafe, catch_unwind};
use std::path::{Path, PathBuf};
use std::sync::{Arc, Mutex};

use serde_json::{Value, json};

use crate::alpha;
use crate::gamma::{HKey, NK};
use crate::shim::{self, Call};
use crate::store::{Cfg, Store};

pub fn copy_dir(src: &Path, dst: &Path) {
    fs::create_dir_all(dst).unwrap();
    for e in fs::read_dir(src).unwrap().flatten() {
        let p = e.path();
        let d = dst.join(e.file_name());
        if p.is_dir() {
            copy_dir(&p, &d);
        } else if p.is_file() {
            fs::copy(&p, &d).unwrap();
        }
    }
}

/// digest of a directory tree: sorted (relative path, kind, blake3 of bytes); LOCK excluded
pub fn dir_digest(root: &Path) -> String {
    fn walk(root: &Path, p: &Path, out: &mut Vec<String>) {
        let mut ents: Vec<_> = fs::read_dir(p).into_iter().flatten().flatten().collect();
        ents.sort_by_key(|e| e.file_name());
        for e in ents {
            let path = e.path();
            let rel = path.strip_prefix(root).unwrap().to_string_lossy().to_string();
            if rel == "LOCK" {
                continue;
            }
            if path.is_dir() {
                out.push(format!("d {rel}"));
                walk(root, &path, out);
            } else {
                let b = fs::read(&path).unwrap_or_default();
                out.push(format!("f {rel} {}", blake3::hash(&b).to_hex()));
            }
        }
    }
    let mut v = vec![];
    walk(root, root, &mut v);
    blake3::hash(v.join("\n").as_bytes()).to_hex().to_string()
}

fn path_class(root: &Path, p: &str) -> String {
    let rel = Path::new(p).strip_prefix(root).map(|x| x.to_string_lossy().to_string()).unwrap_or_default();
    if rel.starts_with("cas/") || rel == "cas" {
        "cas".into()
    } else if rel.starts_with("staging") {
        "staging".into()
    } else if rel.ends_with("_index.wal") {
        "wal".into()
    } else {
        rel
    }
}

pub struct Out {
    pub w: std::io::BufWriter<fs::File>,
    pub lines: usize,
}
impl Out {
    pub fn emit(&mut self, v: &Value) {
        serde_json::to_writer(&mut self.w, v).unwrap();
        self.w.write_all(b"\n").unwrap();
        self.lines += 1;
    }
}

#[derive(Default)]
struct Boundaries {
    k: usize,
    imgs: Vec<(usize, String, String, PathBuf)>, // k, call kind, path class, image dir
    // power-loss bookkeeping: synced length per path
    synced: HashMap<String, u64>,
    power: bool,
    loss_imgs: Vec<(usize, Vec<String>, PathBuf)>,
    fail_at: Option<(usize, i32)>,
    failed: Option<(usize, String, String)>,
    count_only: bool,
    /// Some((total, few)): only a sparse selection of the `total` boundaries is imaged (the 65 536 mkdirs of a pre-created tree)
    sparse: Option<(usize, bool)>,
}

fn sparse_pick(k: usize, total: usize, few: bool) -> bool {
    if few {
        k == total / 2 || k + 4 == total || k + 1 == total
    } else {
        k <= 3 || k + 12 > total || k == total / 3 || k == 2 * (total / 3)
    }
}

fn unsynced_files(root: &Path, synced: &HashMap<String, u64>) -> Vec<(String, u64)> {
    fn walk(p: &Path, out: &mut Vec<PathBuf>) {
        for e in fs::read_dir(p).into_iter().flatten().flatten() {
            let path = e.path();
            if path.is_dir() {
                walk(&path, out);
            } else {
                out.push(path);
            }
        }
    }
    let mut files = vec![];
    walk(root, &mut files);
    let mut v = vec![];
    for f in files {
        if f.file_name().is_some_and(|n| n == "LOCK") {
            continue;
        }
        let len = fs::metadata(&f).map_or(0, |m| m.len());
        let key = f.to_string_lossy().to_string();
        let s = *synced.get(&key).unwrap_or(&0);
        if len > s {
            v.push((key, s));
        }
    }
    v.sort();
    v
}

fn install_boundary_handler(root: &Path, scratch: &Path, st: Arc<Mutex<Boundaries>>) {
    let root_b = root.to_path_buf();
    let scratch = scratch.to_path_buf();
    shim::install(
        root,
        Box::new(move |c: &Call| {
            let mut b = st.lock().unwrap();
            b.k += 1;
            let k = b.k;
            if let Some((at, errno)) = b.fail_at {
                if at == k {
                    b.failed = Some((k, shim::kind_name(c.kind).to_string(), path_class(&root_b, &c.p1)));
                    return errno;
                }
            }
            if b.count_only {
                return 0;
            }
            let skip = b.sparse.is_some_and(|(total, few)| !sparse_pick(k, total, few));
            if b.fail_at.is_none() && !skip {
                let img = scratch.join(format!("img{k}"));
                copy_dir(&root_b, &img);
                b.imgs.push((k, shim::kind_name(c.kind).to_string(), path_class(&root_b, &c.p1), img.clone()));
                if b.power {
                    // every non-empty subset of the files that have unsynced bytes (at most 3 files -> 7 images)
                    let uns = unsynced_files(&root_b, &b.synced);
                    let m = uns.len().min(3);
                    for mask in 1u32..(1 << m) {
                        let limg = scratch.join(format!("img{k}_loss{mask}"));
                        copy_dir(&img, &limg);
                        let mut lost = vec![];
                        for (i, (path, slen)) in uns.iter().take(m).enumerate() {
                            if mask & (1 << i) != 0 {
                                let rel = Path::new(path).strip_prefix(&root_b).unwrap();
                                let f = fs::OpenOptions::new().write(true).open(limg.join(rel)).unwrap();
                                f.set_len(*slen).unwrap();
                                lost.push(path_class(&root_b, path));
                            }
                        }
                        b.loss_imgs.push((k, lost, limg));
                    }
                }
            }
            // bookkeeping AFTER the image: the call has not happened yet at this boundary
            match c.kind {
                shim::K_FSYNC | shim::K_FDATASYNC => {
                    let len = fs::metadata(&c.p1).map_or(0, |m| m.len());
                    b.synced.insert(c.p1.clone(), len);
                }
                shim::K_RENAME => {
                    if let Some(p2) = &c.p2 {
                        let s = b.synced.remove(&c.p1).unwrap_or(0);
                        b.synced.insert(p2.clone(), s);
                    }
                }
                shim::K_UNLINK => {
                    b.synced.remove(&c.p1);
                }
                shim::K_OPEN => {
                    if c.a & (libc::O_TRUNC as i64) != 0 || !Path::new(&c.p1).exists() {
                        b.synced.insert(c.p1.clone(), 0);
                    }
                }
                _ => {}
            }
            0
        }),
    );
}

/// Open a crash image with the real code, observe, optionally continue, optionally collect the
/// boundaries of the recovery itself (nested crash).
fn recover_image<K: HKey>(img: &Path, cfg: &Cfg, nested: bool, cont: &[Value], scratch: &Path) -> Value {
    let names = crate::store::names_of(&crate::gamma::Universe::<K>::new(&cfg.kt));
    let disk = alpha::alpha(img, &names, NK);
    let mut st = Store::<K>::new(img, cfg);
    let bd = Arc::new(Mutex::new(Boundaries::default()));
    let sub = scratch.join("nested");
    if nested {
        let _ = fs::remove_dir_all(&sub);
        fs::create_dir_all(&sub).unwrap();
        install_boundary_handler(img, &sub, bd.clone());
    }
    let res = st.open();
    if nested {
        shim::uninstall();
    }
    let obs = st.observe_opt(true);
    let mut contv = vec![];
    for (i, op) in cont.iter().enumerate() {
        let r = st.exec(op, i);
        let o = st.observe_opt(true);
        contv.push(json!({"op": op, "res": r, "obs": o}));
    }
    st.close();
    let mut nestedv = vec![];
    if nested {
        let imgs = std::mem::take(&mut bd.lock().unwrap().imgs);
        for (k, kind, pc, p) in imgs {
            let d2 = alpha::alpha(&p, &names, NK);
            let mut s2 = Store::<K>::new(&p, cfg);
            let r2 = s2.open();
            let o2 = s2.observe_opt(true);
            s2.close();
            nestedv.push(json!({"k": k, "call": kind, "path": pc, "disk": d2, "res": r2, "obs": o2}));
        }
        let _ = fs::remove_dir_all(&sub);
    }
    json!({"disk": disk, "res": res, "obs": obs, "cont": contv, "nested": nestedv})
}

fn default_cont() -> Vec<Value> {
    vec![
        json!({"op": "cleanup"}),
        json!({"op": "put", "k": 1, "c": "B"}),
        json!({"op": "del", "k": 2}),
        json!({"op": "ckpt"}),
        json!({"op": "reopen"}),
    ]
}

pub fn run_scenario<K: HKey>(sc: &Value, scratch: &Path, out: &mut Out) {
    let cfg = Cfg::from_json(&sc["cfg"]);
    let mode = sc["env"]["mode"].as_str().unwrap_or("plain").to_string();
    let sid = sc["id"].clone();
    let ops: Vec<Value> = sc["ops"].as_array().cloned().unwrap_or_default();
    let sel0 = sc["chunk"].as_u64().unwrap_or(0) as usize;
    match mode.as_str() {
        "plain" => run_plain::<K>(&sid, &cfg, &ops, sel0, scratch, out, &mode, sc["env"]["short_writes"].as_bool().unwrap_or(false)),
        "crash" | "power" => run_crash::<K>(&sid, &cfg, &ops, sel0, scratch, out, &mode, &sc["env"]),
        "fault" => run_fault::<K>(&sid, &cfg, &ops, sel0, scratch, out, &sc["env"]),
        "damage" => crate::damage::run_damage::<K>(&sid, &cfg, &ops, sel0, scratch, out, &sc["env"]),
        "plant" => crate::damage::run_plant::<K>(&sid, &cfg, &ops, sel0, scratch, out, &sc["env"]),
        "gate" => crate::damage::run_gate::<K>(&sid, &cfg, &ops, sel0, scratch, out, &sc["env"]),
        "bulk" => run_bulk(&sid, &cfg, scratch, out, &sc["env"]),
        other => panic!("unknown mode {other}"),
    }
}

fn fresh_root(scratch: &Path) -> PathBuf {
    let root = scratch.join("db");
    let _ = fs::remove_dir_all(&root);
    fs::create_dir_all(&root).unwrap();
    root
}

#[allow(clippy::too_many_arguments)]
fn run_plain<K: HKey>(sid: &Value, cfg: &Cfg, ops: &[Value], sel0: usize, scratch: &Path, out: &mut Out, mode: &str, short_writes: bool) {
    let root = fresh_root(scratch);
    out.emit(&json!({"ev": "reset", "sid": sid, "cfg": cfg.to_json(), "mode": mode}));
    let mut st = Store::<K>::new(&root, cfg);
    if short_writes && shim::available() {
        // environment "short writes": every write(2) of more than one byte on a file of the store accepts only half of what
        // it is offered. This is legal kernel behaviour; nothing observable may change (the model has no such step at all).
        shim::install(&root, Box::new(|c: &Call| if c.kind == shim::K_WRITE && c.a > 1 { -1 } else { 0 }));
    } else {
        shim::install_monitor(&root); // no boundaries, only the watch for in-place writes under cas/ (if the shim is loaded)
    }
    let r = st.exec(&json!({"op": "open"}), 0);
    out.emit(&json!({"ev": "op", "i": 0, "op": {"op": "open"}, "res": r, "obs": st.observe()}));
    for (i, op) in ops.iter().enumerate() {
        let r = st.exec(op, sel0 + i);
        out.emit(&json!({"ev": "op", "i": i + 1, "op": op, "res": r, "obs": st.observe()}));
    }
    st.close();
    if short_writes {
        shim::uninstall();
    }
    let _ = fs::remove_dir_all(&root);
}

#[allow(clippy::too_many_arguments)]
fn run_crash<K: HKey>(
    sid: &Value,
    cfg: &Cfg,
    ops: &[Value],
    sel0: usize,
    scratch: &Path,
    out: &mut Out,
    mode: &str,
    env: &Value,
) {
    let root = fresh_root(scratch);
    let imgdir = scratch.join("imgs");
    let _ = fs::remove_dir_all(&imgdir);
    fs::create_dir_all(&imgdir).unwrap();
    let nested = env["nested"].as_bool().unwrap_or(false);
    let do_cont = env["cont"].as_bool().unwrap_or(false);
    let cont = match env["cont_ops"].as_array() {
        Some(c) => c.clone(),
        None if do_cont => default_cont(),
        None => vec![],
    };
    // env.sparse_open: the first open has very many boundaries (pre-created tree): count them on a scratch directory,
    // then image a sparse selection
    let sparse_few = env["sparse_open"].as_str() == Some("few");
    let sparse_total = if env["sparse_open"].as_bool().unwrap_or(false) || env["sparse_open"].is_string() {
        let probe = scratch.join("probe");
        let _ = fs::remove_dir_all(&probe);
        fs::create_dir_all(&probe).unwrap();
        let bdc = Arc::new(Mutex::new(Boundaries { count_only: true, ..Default::default() }));
        install_boundary_handler(&probe, &probe, bdc.clone());
        let mut stp = Store::<K>::new(&probe, cfg);
        let _ = stp.open();
        stp.close();
        shim::uninstall();
        let _ = fs::remove_dir_all(&probe);
        let k = bdc.lock().unwrap().k;
        Some((k, sparse_few))
    } else {
        None
    };
    out.emit(&json!({"ev": "reset", "sid": sid, "cfg": cfg.to_json(), "mode": mode}));
    let bd = Arc::new(Mutex::new(Boundaries { power: mode == "power", ..Default::default() }));
    let mut st = Store::<K>::new(&root, cfg);
    let mut all_ops = vec![json!({"op": "open"})];
    all_ops.extend(ops.iter().cloned());
    // env.from: images are only taken from this operation index on (long histories: the interesting part is the end)
    let from = env["from"].as_u64().unwrap_or(0) as usize;
    for (i, op) in all_ops.iter().enumerate() {
        if i >= from {
            bd.lock().unwrap().sparse = if i == 0 { sparse_total } else { None };
            install_boundary_handler(&root, &imgdir, bd.clone());
        } else {
            // no boundaries yet, but the descriptors opened now are followed (the log segment stays open across operations)
            shim::set_root(Some(&root));
        }
        let r = st.exec(op, sel0 + i);
        shim::uninstall();
        let obs = st.observe();
        // the images of this operation: recover each with the real code
        let (imgs, loss) = {
            let mut b = bd.lock().unwrap();
            (std::mem::take(&mut b.imgs), std::mem::take(&mut b.loss_imgs))
        };
        for (k, kind, pc, p) in imgs {
            if mode == "crash" {
                let rec = recover_image::<K>(&p, cfg, nested, &cont, scratch);
                out.emit(&json!({"ev": "img", "i": i, "k": k, "call": kind, "path": pc, "op": op, "lost": [], "rec": rec}));
            }
            let _ = fs::remove_dir_all(&p);
        }
        for (k, lost, p) in loss {
            let rec = recover_image::<K>(&p, cfg, false, &[], scratch);
            out.emit(&json!({"ev": "img", "i": i, "k": k, "call": "power", "path": "", "op": op, "lost": lost, "rec": rec}));
            let _ = fs::remove_dir_all(&p);
        }
        out.emit(&json!({"ev": "op", "i": i, "op": op, "res": r, "obs": obs}));
    }
    st.close();
    let _ = fs::remove_dir_all(&root);
    let _ = fs::remove_dir_all(&imgdir);
}

/// One injected failure at the k-th mutating call, for every k (or env.ks), then the rest of the
/// scenario, then a clean reopen.
fn run_fault<K: HKey>(sid: &Value, cfg: &Cfg, ops: &[Value], sel0: usize, scratch: &Path, out: &mut Out, env: &Value) {
    let errno = match env["errno"].as_str().unwrap_or("EIO") {
        "ENOSPC" => libc::ENOSPC,
        _ => libc::EIO,
    };
    let mut all_ops = vec![json!({"op": "open"})];
    all_ops.extend(ops.iter().cloned());
    // pass 0: count the boundaries
    let total = {
        let root = fresh_root(scratch);
        let bd = Arc::new(Mutex::new(Boundaries { count_only: true, ..Default::default() }));
        let mut st = Store::<K>::new(&root, cfg);
        install_boundary_handler(&root, scratch, bd.clone());
        for (i, op) in all_ops.iter().enumerate() {
            let _ = st.exec(op, sel0 + i);
        }
        st.close();
        shim::uninstall();
        let k = bd.lock().unwrap().k;
        k
    };
    let ks: Vec<usize> = match env["ks"].as_array() {
        Some(a) => a.iter().map(|x| x.as_u64().unwrap() as usize).collect(),
        None => {
            let stride = env["stride"].as_u64().unwrap_or(1) as usize;
            let off = env["offset"].as_u64().unwrap_or(0) as usize;
            (1..=total).filter(|k| (k + off) % stride == 0).collect()
        }
    };
    for kf in ks {
        let root = fresh_root(scratch);
        let bd = Arc::new(Mutex::new(Boundaries { fail_at: Some((kf, errno)), ..Default::default() }));
        let mut st = Store::<K>::new(&root, cfg);
        out.emit(&json!({"ev": "reset", "sid": sid, "cfg": cfg.to_json(), "mode": "fault", "fault_k": kf, "total": total}));
        install_boundary_handler(&root, scratch, bd.clone());
        let mut lines = vec![];
        for (i, op) in all_ops.iter().enumerate() {
            let before = bd.lock().unwrap().failed.is_some();
            let r = st.exec(op, sel0 + i);
            let fl = bd.lock().unwrap().failed.clone();
            let hit = !before && fl.is_some();
            let fv = match (&fl, hit) {
                (Some((k, kind, pc)), true) => json!({"hit": true, "k": k, "call": kind, "path": pc}),
                _ => json!({"hit": false, "k": 0, "call": "", "path": ""}),
            };
            lines.push(json!({"ev": "op", "i": i, "op": op, "res": r, "obs": st.observe_opt(true), "fault": fv}));
            if i == 0 && st.cas.is_none() {
                // the initial open failed: reopen without fault so that the rest can be judged
                let r2 = st.exec(&json!({"op": "open"}), 0);
                lines.push(json!({"ev": "op", "i": 0, "op": {"op": "open"}, "res": r2, "obs": st.observe(),
                                   "fault": {"hit": false, "k": 0, "call": "", "path": ""}}));
            }
        }
        shim::uninstall();
        // final clean reopen
        let r = st.exec(&json!({"op": "reopen"}), 0);
        lines.push(json!({"ev": "op", "i": all_ops.len(), "op": {"op": "reopen"}, "res": r, "obs": st.observe(),
                           "fault": {"hit": false, "k": 0, "call": "", "path": ""}}));
        for l in lines {
            out.emit(&l);
        }
        st.close();
        let _ = fs::remove_dir_all(&root);
    }
}

/// Block abstraction for "a multi-key range removal is one operation": a block of `n` concrete keys
/// a00000.. stands for ONE abstract key (value full / none / partial).  The block and two outside keys are
/// written, then `remove_range` over exactly the block runs with an image taken at every boundary; each
/// image is recovered with the real code and the number of block keys left is reported.
pub fn run_bulk(sid: &Value, cfg: &Cfg, scratch: &Path, out: &mut Out, env: &Value) {
    use cassadilia::Cas;
    let n = env["n"].as_u64().unwrap_or(1300) as usize;
    let distinct = env["distinct"].as_u64().unwrap_or(1) as usize; // number of different contents in the block
    let ckpt = env["ckpt"].as_bool().unwrap_or(true);
    let root = fresh_root(scratch);
    let imgdir = scratch.join("imgs");
    let _ = fs::remove_dir_all(&imgdir);
    fs::create_dir_all(&imgdir).unwrap();
    out.emit(&json!({"ev": "reset", "sid": sid, "cfg": cfg.to_json(), "mode": "bulk"}));
    // keylen > 0: long keys, so that the single log record of the removal is bigger than any plausible internal limit
    let pad = "k".repeat(env["keylen"].as_u64().unwrap_or(0) as usize);
    let key = |i: usize| format!("a{i:05}{pad}");
    let count = |cas: &Cas<String>| -> (usize, bool, usize) {
        let g = cas.read_index_state();
        let left = (0..n).filter(|i| g.contains_key(&key(*i))).count();
        let outside = g.contains_key(&String::new()) && g.contains_key(&"b".to_string());
        (left, outside, g.len())
    };
    let _armed = crate::watchdog::Armed::new("{\"op\":\"bulk\"}", 600);
    shim::set_root(Some(&root)); // descriptors opened from now on are followed; boundaries only inside the removal
    let cas = Cas::<String>::open(&root, cfg.config()).expect("bulk: open");
    let put = |cas: &Cas<String>, k: String, body: &[u8]| {
        let mut tx = cas.put(k).expect("bulk: put");
        tx.write(body).expect("bulk: write");
        tx.finish().expect("bulk: finish");
    };
    put(&cas, String::new(), b"outside-low");
    put(&cas, "b".to_string(), b"outside-high");
    for i in 0..n {
        put(&cas, key(i), format!("block-{}", i % distinct).as_bytes());
    }
    if ckpt {
        cas.checkpoint().expect("bulk: checkpoint");
    }
    let bd = Arc::new(Mutex::new(Boundaries::default()));
    install_boundary_handler(&root, &imgdir, bd.clone());
    let r = catch_unwind(AssertUnwindSafe(|| cas.remove_range("a0".to_string().."a9".to_string())));
    shim::uninstall();
    let res = match r {
        Ok(Ok(c)) => crate::store::res_ok("ok", c as i64),
        Ok(Err(e)) => crate::store::res_err(&crate::store::err_class(&e)),
        Err(p) => crate::store::res_panic(&crate::store::panic_msg(p)),
    };
    let imgs = std::mem::take(&mut bd.lock().unwrap().imgs);
    for (k, kind, pc, p) in imgs {
        let rec = match catch_unwind(AssertUnwindSafe(|| Cas::<String>::open(&p, cfg.config()))) {
            Ok(Ok(c2)) => {
                let (left, outside, len) = count(&c2);
                json!({"ok": true, "val": "ok", "left": left, "outside": outside, "len": len})
            }
            Ok(Err(_)) => json!({"ok": false, "val": "err", "left": -1, "outside": false, "len": -1}),
            Err(_) => json!({"ok": false, "val": "panic", "left": -1, "outside": false, "len": -1}),
        };
        out.emit(&json!({"ev": "bulk", "phase": "img", "n": n, "k": k, "call": kind, "path": pc, "rec": rec}));
        let _ = fs::remove_dir_all(&p);
    }
    let (left, outside, len) = count(&cas);
    out.emit(&json!({"ev": "bulk", "phase": "done", "n": n, "k": 0, "call": "", "path": "", "res": res,
                     "rec": {"ok": true, "val": "ok", "left": left, "outside": outside, "len": len}}));
    drop(cas);
    // a clean restart (the removal is still in the un-checkpointed tail of the log, or was checkpointed by a rollover)
    // must show exactly what the handle showed before it was dropped
    let rec = match catch_unwind(AssertUnwindSafe(|| Cas::<String>::open(&root, cfg.config()))) {
        Ok(Ok(c2)) => {
            let (l2, o2, n2) = count(&c2);
            json!({"ok": true, "val": "ok", "left": l2, "outside": o2, "len": n2})
        }
        Ok(Err(_)) => json!({"ok": false, "val": "err", "left": -1, "outside": false, "len": -1}),
        Err(_) => json!({"ok": false, "val": "panic", "left": -1, "outside": false, "len": -1}),
    };
    out.emit(&json!({"ev": "bulk", "phase": "reopen", "n": n, "k": 0, "call": "", "path": "", "res": res,
                     "before": {"left": left, "outside": outside, "len": len}, "rec": rec}));
    let _ = fs::remove_dir_all(&root);
    let _ = fs::remove_dir_all(&imgdir);
}
