//! A real cassadilia store driven through its public API, plus the observation function
//! (everything the properties call "observable": reads, iteration, counts, statistics, listings).

use std::io::Read;
use std::num::NonZeroU64;
use std::ops::Bound;
use std::panic::{AssertUnwindSafe, catch_unwind};
use std::path::{Path, PathBuf};

use cassadilia::{Cas, Config, LibError, OrphanStats, SyncMode};
use serde_json::{Value, json};

use crate::alpha::{self, Names};
use crate::gamma::{CONTENT_NAMES, HKey, NK, Universe};

#[derive(Clone, Debug)]
pub struct Cfg {
    pub kt: String,
    pub n: u64,
    pub sync: bool,
    pub pre: bool,
    pub verify: bool,
    pub scan: bool,
    /// Config::fail_on_integrity_errors (the gate of Cas::open; open_with_recover, which the harness uses, must not depend on it)
    pub strict: bool,
}

impl Cfg {
    pub fn from_json(v: &Value) -> Cfg {
        Cfg {
            kt: v["kt"].as_str().unwrap_or("string").to_string(),
            n: v["n"].as_u64().unwrap_or(2),
            sync: v["sync"].as_bool().unwrap_or(true),
            pre: v["pre"].as_bool().unwrap_or(false),
            verify: v["verify"].as_bool().unwrap_or(false),
            scan: v["scan"].as_bool().unwrap_or(true),
            strict: v["strict"].as_bool().unwrap_or(false),
        }
    }
    pub fn to_json(&self) -> Value {
        let bigk: Vec<i64> = match self.kt.as_str() {
            "string_big" => vec![2],
            "bytes_big" => vec![3],
            _ => vec![],
        };
        json!({"kt": self.kt, "n": if self.n > i32::MAX as u64 { -1 } else { self.n as i64 }, "sync": self.sync,
               "pre": self.pre, "verify": self.verify, "scan": self.scan, "strict": self.strict, "bigk": bigk})
    }
    pub fn config(&self) -> Config {
        Config {
            sync_mode: if self.sync { SyncMode::Sync } else { SyncMode::Async },
            num_ops_per_wal: NonZeroU64::new(self.n).unwrap(),
            pre_create_cas_dirs: self.pre,
            scan_orphans_on_startup: self.scan,
            verify_blob_integrity: self.verify,
            fail_on_integrity_errors: self.strict,
        }
    }
}

/// number of descriptors of this process that are open on a staging file (also an unlinked one)
pub fn open_fds() -> usize {
    std::fs::read_dir("/proc/self/fd").map_or(0, |d| {
        d.flatten().filter(|e| std::fs::read_link(e.path()).is_ok_and(|t| t.to_string_lossy().contains("/staging/"))).count()
    })
}

pub fn err_class(e: &LibError) -> String {
    match e {
        LibError::Io { operation, .. } => format!("Io:{operation:?}"),
        LibError::AlreadyOpened => "AlreadyOpened".into(),
        LibError::Cas(c) => format!("Cas:{}", first_word(&format!("{c:?}"))),
        LibError::BlobDataMissing { .. } => "BlobDataMissing".into(),
        LibError::CommitFdatasyncSend(_) => "CommitFdatasyncSend".into(),
        LibError::CommitFdatasyncIo(_) => "CommitFdatasyncIo".into(),
        LibError::Index(i) => format!("Index:{}", first_word(&format!("{i:?}"))),
        LibError::Settings(s) => format!("Settings:{}", first_word(&format!("{s:?}"))),
        LibError::TypesError(_) => "Types".into(),
        LibError::IntegrityCheckFailed { .. } => "Integrity".into(),
    }
}
fn first_word(s: &str) -> String {
    s.chars().take_while(|c| c.is_alphanumeric()).collect()
}

pub fn res_ok(val: &str, n: i64) -> Value {
    json!({"ok": true, "val": val, "n": n, "err": ""})
}
pub fn res_err(err: &str) -> Value {
    json!({"ok": false, "val": "err", "n": 0, "err": err})
}
pub fn res_panic(msg: &str) -> Value {
    json!({"ok": false, "val": "panic", "n": 0, "err": msg})
}

pub fn panic_msg(p: Box<dyn std::any::Any + Send>) -> String {
    if let Some(s) = p.downcast_ref::<&str>() {
        s.to_string()
    } else if let Some(s) = p.downcast_ref::<String>() {
        s.clone()
    } else {
        "panic".to_string()
    }
}

pub fn chunking(len: usize, sel: usize) -> Vec<usize> {
    // chunk lengths; the sum is len; zero-length chunks are real write calls
    match sel % 7 {
        0 => vec![len],
        1 => vec![0, len, 0],
        2 => {
            if len >= 1 {
                vec![1, len - 1]
            } else {
                vec![0]
            }
        }
        3 => {
            let mut v = vec![];
            let mut r = len;
            while r > 0 {
                let c = r.min(4096);
                v.push(c);
                r -= c;
            }
            v
        }
        4 => vec![len / 2, len - len / 2],
        5 => {
            if len > 8192 {
                vec![8192, len - 8192]
            } else {
                vec![len]
            }
        }
        _ => {
            // no write call at all for the empty content; otherwise 5000-byte pieces (straddle the 8 KiB buffer)
            let mut v = vec![];
            let mut r = len;
            while r > 0 {
                let c = r.min(5000);
                v.push(c);
                r -= c;
            }
            v
        }
    }
}

pub struct Store<K: HKey> {
    pub root: PathBuf,
    pub cfg: Cfg,
    pub u: Universe<K>,
    pub names: Names,
    pub cas: Option<Cas<K>>,
    pub stats: Option<OrphanStats<K>>,
    pub fresh_stats: bool,
    pub readers: std::collections::HashMap<u64, std::io::BufReader<std::fs::File>>,
}

pub fn names_of<K: HKey>(u: &Universe<K>) -> Names {
    Names {
        key_bytes: u.key_bytes.clone(),
        contents: u.contents.iter().map(|c| (c.0.clone(), *c.2.as_bytes(), c.1.len())).collect(),
    }
}

fn bound<K: HKey>(u: &Universe<K>, b: &Value) -> Bound<K> {
    let kind = b[0].as_str().unwrap_or("U");
    let k = b[1].as_u64().unwrap_or(0) as usize;
    match kind {
        "I" => Bound::Included(u.key(k)),
        "X" => Bound::Excluded(u.key(k)),
        _ => Bound::Unbounded,
    }
}

impl<K: HKey> Store<K> {
    pub fn new(root: &Path, cfg: &Cfg) -> Self {
        let u = Universe::<K>::new(&cfg.kt);
        let names = names_of(&u);
        Store { root: root.to_path_buf(), cfg: cfg.clone(), u, names, cas: None, stats: None, fresh_stats: false, readers: Default::default() }
    }

    pub fn open(&mut self) -> Value {
        crate::watchdog::arm("{\"op\":\"open\"}", 120);
        let r = self.open_with(&self.cfg.clone());
        crate::watchdog::disarm();
        r
    }

    pub fn open_with(&mut self, cfg: &Cfg) -> Value {
        self.stats = None;
        self.cas = None;
        let root = self.root.clone();
        let conf = cfg.config();
        match catch_unwind(AssertUnwindSafe(|| Cas::<K>::open_with_recover(&root, conf))) {
            Ok(Ok((cas, stats))) => {
                self.cas = Some(cas);
                self.stats = stats;
                self.fresh_stats = true;
                res_ok("ok", 0)
            }
            Ok(Err(e)) => res_err(&err_class(&e)),
            Err(p) => res_panic(&panic_msg(p)),
        }
    }

    pub fn close(&mut self) {
        self.stats = None;
        self.cas = None;
        self.fresh_stats = false;
    }

    /// Execute one user-level operation. `sel` selects the chunking of a put.
    pub fn exec(&mut self, op: &Value, sel: usize) -> Value {
        // a call that does not come back within 60 s is reported by the watchdog (exit code 3), not waited for
        crate::watchdog::arm(&op.to_string(), 60);
        let r = self.exec_inner(op, sel);
        crate::watchdog::disarm();
        r
    }

    fn exec_inner(&mut self, op: &Value, sel: usize) -> Value {
        let name = op["op"].as_str().unwrap_or("");
        if name == "open" {
            return self.open();
        }
        if name == "reopen" {
            self.close();
            return self.open();
        }
        if name == "close" {
            self.close();
            return res_ok("ok", 0);
        }
        self.fresh_stats = self.fresh_stats && name == "cleanup";
        if name == "rddrain" {
            // a reader obtained earlier (possibly before overwrites, removals, a reopen) is drained now
            let id = op["id"].as_u64().unwrap_or(0);
            return match self.readers.remove(&id) {
                Some(mut r) => {
                    let mut v = vec![];
                    match r.read_to_end(&mut v) {
                        Ok(_) => res_ok(&self.u.name_of_bytes(&v), v.len() as i64),
                        Err(_) => res_err("read"),
                    }
                }
                None => res_ok("-", 0),
            };
        }
        if name == "rdopen" {
            let id = op["id"].as_u64().unwrap_or(0);
            let Some(cas) = self.cas.as_ref() else { return res_err("closed") };
            let k = self.u.key(op["k"].as_u64().unwrap() as usize);
            return match catch_unwind(AssertUnwindSafe(|| cas.get_reader(&k))) {
                Ok(Ok(Some(r))) => {
                    self.readers.insert(id, r);
                    res_ok("ok", 0)
                }
                Ok(Ok(None)) => res_ok("-", 0),
                Ok(Err(e)) => res_err(&err_class(&e)),
                Err(p) => res_panic(&panic_msg(p)),
            };
        }
        let Some(cas) = self.cas.as_ref() else { return res_err("closed") };
        let u = &self.u;
        let stats = self.stats.as_ref();
        let r = catch_unwind(AssertUnwindSafe(|| -> Result<Value, LibError> {
            match name {
                "put" | "abort" => {
                    let k = u.key(op["k"].as_u64().unwrap() as usize);
                    let content = u.content(op["c"].as_str().unwrap());
                    let mut tx = cas.put(k)?;
                    let mut off = 0;
                    for c in chunking(content.len(), sel) {
                        tx.write(&content[off..off + c]).map_err(|e| LibError::Io {
                            operation: cassadilia::LibIoOperation::WriteStagingFile,
                            path: None,
                            source: std::io::Error::other(e.to_string()),
                        })?;
                        off += c;
                    }
                    if name == "put" {
                        tx.finish()?;
                    } else if op["panic"].as_bool().unwrap_or(false) {
                        // the transaction is abandoned by a panic of its owner: unwinding drops it
                        let r = catch_unwind(AssertUnwindSafe(move || {
                            let _keep = tx;
                            std::panic::resume_unwind(Box::new("abandoned by unwinding"));
                        }));
                        debug_assert!(r.is_err());
                    } else {
                        drop(tx);
                    }
                    Ok(res_ok("ok", 0))
                }
                "del" => {
                    let k = u.key(op["k"].as_u64().unwrap() as usize);
                    let b = cas.remove(&k)?;
                    Ok(res_ok(if b { "true" } else { "false" }, 0))
                }
                "delr" => {
                    let lo = bound(u, &op["lo"]);
                    let hi = bound(u, &op["hi"]);
                    let n = cas.remove_range((lo, hi))?;
                    Ok(res_ok("count", n as i64))
                }
                "ckpt" => {
                    cas.checkpoint()?;
                    Ok(res_ok("ok", 0))
                }
                "cleanup" => match stats {
                    Some(st) => {
                        let r = st.delete_orphans()?;
                        Ok(json!({"ok": true, "val": "ok", "n": r.orphans_deleted as i64, "err": "",
                                  "skipped": r.orphans_skipped, "invalid": r.invalid_files_removed,
                                  "staging": r.staging_files_removed, "errors": r.errors.len()}))
                    }
                    None => Ok(res_ok("ok", 0)),
                },
                other => Ok(res_err(&format!("unknown op {other}"))),
            }
        }));
        match r {
            Ok(Ok(v)) => v,
            Ok(Err(e)) => res_err(&err_class(&e)),
            Err(p) => res_panic(&panic_msg(p)),
        }
    }

    /// Everything observable through the public API and the directory, in abstract terms.
    pub fn observe(&self) -> Value {
        self.observe_opt(false)
    }

    /// `lite` leaves out the bulky read results (get_reader, get_size, get_range, range iteration).
    pub fn observe_opt(&self, lite: bool) -> Value {
        let _armed = crate::watchdog::Armed::new("{\"op\":\"observe (reads after the previous operation)\"}", 60);
        let u = &self.u;
        let nk = NK;
        let mut idx = vec![json!("-"); nk];
        let mut sizes = vec![json!(-1); nk];
        let mut iter = vec![];
        let mut refc = vec![json!(-1); CONTENT_NAMES.len()];
        let mut refx = 0;
        let mut stats = json!([0, 0]);
        let mut ixsz = 0u64;
        let mut get = vec![json!("-"); nk];
        let mut gsize = vec![json!(-1); nk];
        let mut rdr = vec![json!("-"); nk];
        let mut rng = vec![];
        let mut ranges = vec![];
        let mut len = 0;
        let mut extra_keys = 0;
        // the rest of the IndexReadGuard surface: every accessor must tell the same story as iter()
        let mut gapi = json!({"on": false});
        if let Some(cas) = self.cas.as_ref() {
            let r = catch_unwind(AssertUnwindSafe(|| {
                {
                    let g = cas.read_index_state();
                    len = g.len();
                    for (k, item) in g.iter() {
                        let a = u.abs_of_key(k);
                        iter.push(json!(a));
                        if a >= 1 {
                            idx[a - 1] = json!(u.name_of_hash(item.blob_hash.as_bytes()));
                            sizes[a - 1] = json!(item.blob_size);
                        } else {
                            extra_keys += 1;
                        }
                    }
                    for (h, c) in g.known_blobs() {
                        let n = u.name_of_hash(h.as_bytes());
                        match CONTENT_NAMES.iter().position(|x| *x == n) {
                            Some(p) => refc[p] = json!(*c),
                            None => refx += 1,
                        }
                    }
                    let st = g.stats();
                    stats = json!([st.cas.unique_blobs, st.cas.total_bytes]);
                    ixsz = st.index.serialized_size_bytes;
                    if !lite {
                        let mut has = vec![];
                        let mut item = vec![];
                        let mut req = vec![];
                        for a in 1..=nk {
                            let k = u.key(a);
                            has.push(json!(g.contains_key(&k)));
                            item.push(match g.get_item(&k) {
                                Some(it) => json!([u.name_of_hash(it.blob_hash.as_bytes()), it.blob_size]),
                                None => json!(["-", -1]),
                            });
                            req.push(match g.require_item(&k) {
                                Ok(it) => json!(u.name_of_hash(it.blob_hash.as_bytes())),
                                Err(_) => json!("-"),
                            });
                        }
                        let snap: Vec<Value> = g
                            .keys_snapshot()
                            .iter()
                            .map(|(k, it)| json!([u.abs_of_key(k), u.name_of_hash(it.blob_hash.as_bytes())]))
                            .collect();
                        let hasblob: Vec<Value> =
                            CONTENT_NAMES.iter().map(|n| json!(g.contains_blob_hash(&u.hash_of(n)))).collect();
                        // the other bound kinds of range(): excluded / unbounded ends, the full range
                        let mut xr = vec![];
                        for lo in 1..=nk {
                            let a: Vec<usize> = g
                                .range::<K, _>((Bound::Excluded(u.key(lo)), Bound::Unbounded))
                                .map(|(k, _)| u.abs_of_key(k))
                                .collect();
                            let b: Vec<usize> = g.range::<K, _>(..u.key(lo)).map(|(k, _)| u.abs_of_key(k)).collect();
                            xr.push(json!({"k": lo, "above": a, "below": b}));
                        }
                        let full: Vec<usize> = g.range::<K, _>(..).map(|(k, _)| u.abs_of_key(k)).collect();
                        gapi = json!({"on": true, "has": has, "item": item, "req": req, "empty": g.is_empty(), "snap": snap,
                                      "hasblob": hasblob, "xr": xr, "full": full});
                    }
                    for lo in 1..=(if lite { 0 } else { nk }) {
                        for hi in lo..=nk {
                            let ks: Vec<usize> =
                                g.range::<K, _>(u.key(lo)..=u.key(hi)).map(|(k, _)| u.abs_of_key(k)).collect();
                            ranges.push(json!({"lo": lo, "hi": hi, "ks": ks}));
                        }
                    }
                }
                for a in 1..=nk {
                    let k = u.key(a);
                    let mut hint = String::new();
                    get[a - 1] = match cas.get(&k) {
                        Ok(Some(b)) => {
                            hint = u.name_of_bytes(&b);
                            json!(hint)
                        }
                        Ok(None) => json!("-"),
                        Err(e) => json!(format!("!{}", err_class(&e))),
                    };
                    if lite {
                        continue;
                    }
                    gsize[a - 1] = match cas.get_size(&k) {
                        Ok(Some(s)) => json!(s),
                        Ok(None) => json!(-1),
                        Err(_) => json!(-2),
                    };
                    rdr[a - 1] = match cas.get_reader(&k) {
                        Ok(Some(mut r)) => {
                            let mut v = vec![];
                            match r.read_to_end(&mut v) {
                                Ok(_) => json!(u.name_of_bytes(&v)),
                                Err(_) => json!("!read"),
                            }
                        }
                        Ok(None) => json!("-"),
                        Err(e) => json!(format!("!{}", err_class(&e))),
                    };
                    // the last two: the whole value and a window of more than 1 MiB (C01 names get_range among "every read")
                    for (s, e) in [(1u64, 4u64), (0, 100_000), (7, 299_999), (0, 2_000_000), (5, 1_100_000)] {
                        let v = match cas.get_range(&k, s, e) {
                            Ok(Some(b)) => {
                                let (c, off, l) = u.locate_slice(&b, &hint);
                                json!({"k": a, "s": s, "e": e, "st": "ok", "c": c, "off": off, "len": l})
                            }
                            Ok(None) => json!({"k": a, "s": s, "e": e, "st": "-", "c": "", "off": 0, "len": 0}),
                            Err(_) => json!({"k": a, "s": s, "e": e, "st": "err", "c": "", "off": 0, "len": 0}),
                        };
                        rng.push(v);
                    }
                }
            }));
            if let Err(p) = r {
                get[0] = json!(format!("!panic:{}", panic_msg(p)));
            }
        }
        let orph = match (&self.stats, self.fresh_stats) {
            (Some(st), true) => {
                let nm = |v: &Vec<cassadilia::BlobHash>| {
                    let mut x: Vec<String> = v.iter().map(|h| u.name_of_hash(h.as_bytes())).collect();
                    x.sort();
                    x
                };
                json!({"on": true, "orphaned": nm(&st.orphaned_blobs), "missing": nm(&st.missing_blobs),
                       "corrupted": nm(&st.corrupted_blobs), "invalid": st.invalid_files.len(),
                       "staging": st.staging_files.len(), "total": st.total_blobs})
            }
            _ => json!({"on": false, "orphaned": [], "missing": [], "corrupted": [], "invalid": 0, "staging": 0, "total": 0}),
        };
        json!({
            "casw": crate::shim::cas_writes(),
            // Async mode hands the staged file's descriptor to a background thread: when it is closed is not a function of the history
            "fds": if self.cfg.sync { open_fds() } else { 0 },
            "open": self.cas.is_some(), "idx": idx, "sizes": sizes, "iter": iter, "len": len, "xkeys": extra_keys,
            "refc": refc, "refx": refx, "stats": stats, "ixsz": ixsz,
            "get": get, "gsize": if lite { vec![] } else { gsize }, "rdr": if lite { vec![] } else { rdr },
            "rng": rng, "ranges": ranges, "gapi": gapi,
            "orph": orph,
            "disk": alpha::alpha(&self.root, &self.names, NK),
        })
    }
}
