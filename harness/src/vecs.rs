//! Mode D: the pure functions (range reads, blob identity / path mapping, codecs) called on
//! enumerated inputs; one ndjson line per call with input and observed output, judged by TLC
//! against the transcribed functions (spec/TraceVec.tla).

use std::alloc::{GlobalAlloc, Layout, System};
use std::collections::BTreeMap;
use std::io::Read;
use std::num::NonZeroU64;
use std::panic::{AssertUnwindSafe, catch_unwind};
use std::path::{Path, PathBuf};
use std::sync::atomic::{AtomicUsize, Ordering};

use cassadilia::{BlobHash, Cas, Config, IndexStateItem, KeyBytes, WalOpRaw, verif};
use serde_json::{Value, json};

use crate::seq::Out;

// ---------------------------------------------------------------- counting allocator
pub struct Counting;
static CUR: AtomicUsize = AtomicUsize::new(0);
static PEAK: AtomicUsize = AtomicUsize::new(0);
unsafe impl GlobalAlloc for Counting {
    unsafe fn alloc(&self, l: Layout) -> *mut u8 {
        let p = unsafe { System.alloc(l) };
        if !p.is_null() {
            let c = CUR.fetch_add(l.size(), Ordering::Relaxed) + l.size();
            PEAK.fetch_max(c, Ordering::Relaxed);
        }
        p
    }
    unsafe fn alloc_zeroed(&self, l: Layout) -> *mut u8 {
        let p = unsafe { System.alloc_zeroed(l) };
        if !p.is_null() {
            let c = CUR.fetch_add(l.size(), Ordering::Relaxed) + l.size();
            PEAK.fetch_max(c, Ordering::Relaxed);
        }
        p
    }
    unsafe fn dealloc(&self, p: *mut u8, l: Layout) {
        unsafe { System.dealloc(p, l) };
        CUR.fetch_sub(l.size(), Ordering::Relaxed);
    }
    unsafe fn realloc(&self, p: *mut u8, l: Layout, n: usize) -> *mut u8 {
        let q = unsafe { System.realloc(p, l, n) };
        if !q.is_null() {
            if n > l.size() {
                let c = CUR.fetch_add(n - l.size(), Ordering::Relaxed) + (n - l.size());
                PEAK.fetch_max(c, Ordering::Relaxed);
            } else {
                CUR.fetch_sub(l.size() - n, Ordering::Relaxed);
            }
        }
        q
    }
}
/// peak number of bytes allocated above the level at the start of `f`
pub fn measure<T>(f: impl FnOnce() -> T) -> (T, usize) {
    let base = CUR.load(Ordering::Relaxed);
    PEAK.store(base, Ordering::Relaxed);
    let r = f();
    let peak = PEAK.load(Ordering::Relaxed);
    (r, peak.saturating_sub(base))
}

/// the input that is about to be executed: if the code under test aborts the process (allocation failure,
/// stack overflow) the driver finds it here
static CUR_PATH: std::sync::Mutex<Option<PathBuf>> = std::sync::Mutex::new(None);
pub fn set_marker_path(p: PathBuf) {
    *CUR_PATH.lock().unwrap() = Some(p);
}
fn mark(v: &Value) {
    if let Some(p) = CUR_PATH.lock().unwrap().as_ref() {
        let _ = std::fs::write(p, serde_json::to_vec(v).unwrap());
    }
}
pub fn clear_marker() {
    if let Some(p) = CUR_PATH.lock().unwrap().as_ref() {
        let _ = std::fs::remove_file(p);
    }
}

fn rnd(x: &mut u64) -> u64 {
    *x = x.wrapping_mul(6364136223846793005).wrapping_add(1442695040888963407);
    *x >> 17
}

// ---------------------------------------------------------------- C17 range reads
fn bound_val(code: i64) -> u64 {
    match code {
        -32 => 1u64 << 32,
        -63 => 1u64 << 63,
        -64 => u64::MAX,
        v => v as u64,
    }
}

pub fn run_range(scratch: &Path, out: &mut Out, tier: &str, seed: u64) {
    let root = scratch.join("rangedb");
    let _ = std::fs::remove_dir_all(&root);
    let cas: Cas<u32> = Cas::open(&root, Config::default()).unwrap();
    let mut lens: Vec<usize> = (0..=6).collect();
    lens.extend([8191, 8192, 8193, 70000, 262_144, 262_145, 300_000, 1_048_577]);
    let mut s = seed;
    for (ki, &l) in lens.iter().enumerate() {
        // distinct bytes for the short contents (a slice identifies its offset), pseudo-random for the long ones
        let content: Vec<u8> = if l <= 6 { (1..=l as u8).collect() } else { (0..l).map(|_| rnd(&mut s) as u8).collect() };
        // the key first holds a content of another length (the recorded size must follow the overwrite)
        let other: Vec<u8> = (0..(l / 2 + 3)).map(|i| (i % 251) as u8).collect();
        let mut tx = cas.put(ki as u32).unwrap();
        tx.write(&other).unwrap();
        tx.finish().unwrap();
        let mut tx = cas.put(ki as u32).unwrap();
        if ki % 2 == 0 {
            tx.write(&content).unwrap();
        } else {
            // header-like small piece first, then the rest in one call
            let cut = content.len().min(16);
            tx.write(&content[..cut]).unwrap();
            tx.write(&content[cut..]).unwrap();
        }
        tx.finish().unwrap();
        let key = ki as u32;
        let size = cas.get_size(&key).unwrap().map_or(-1, |v| v as i64);
        let mut rdlen = -1i64;
        let mut rd_ok = false;
        if let Ok(Some(mut r)) = cas.get_reader(&key) {
            let mut v = vec![];
            if r.read_to_end(&mut v).is_ok() {
                rdlen = v.len() as i64;
                rd_ok = v == content;
            }
        }
        let whole_ok = cas.get(&key).ok().flatten().is_some_and(|b| b[..] == content[..]);
        out.emit(&json!({"ev": "blobsize", "L": l, "size": size, "rdlen": rdlen, "rd_ok": rd_ok, "get_ok": whole_ok}));
        let mut bounds: Vec<i64> = (0..=(l.min(6) as i64 + 2)).collect();
        if l > 6 {
            bounds.extend([l as i64 - 1, l as i64, l as i64 + 1, l as i64 + 2, 4096, 8192]);
            if tier != "quick" {
                bounds.extend((0..20).map(|_| (rnd(&mut s) % (l as u64 + 3)) as i64));
            }
        }
        bounds.extend([-32, -63, -64]);
        bounds.sort();
        bounds.dedup();
        for &sb in &bounds {
            for &eb in &bounds {
                let (sv, ev) = (bound_val(sb), bound_val(eb));
                mark(&json!({"ev": "range", "L": l, "s": sb, "e": eb}));
                let (res, alloc) = measure(|| catch_unwind(AssertUnwindSafe(|| cas.get_range(&key, sv, ev))));
                let line = match res {
                    Err(_) => json!({"ev": "range", "L": l, "s": sb, "e": eb, "st": "panic", "offs": [], "at_start": false, "len": 0, "alloc": alloc, "bytes_ok": false}),
                    Ok(Err(_)) => json!({"ev": "range", "L": l, "s": sb, "e": eb, "st": "err", "offs": [], "at_start": false, "len": 0, "alloc": alloc, "bytes_ok": true}),
                    Ok(Ok(None)) => json!({"ev": "range", "L": l, "s": sb, "e": eb, "st": "absent", "offs": [], "at_start": false, "len": 0, "alloc": alloc, "bytes_ok": false}),
                    Ok(Ok(Some(b))) => {
                        // where in the content do these bytes occur?  (independent of the clamping rule;
                        // a short slice may occur at several offsets: all of them are reported)
                        let offs: Vec<usize> = if b.is_empty() {
                            vec![]
                        } else {
                            content.windows(b.len()).enumerate().filter(|(_, w)| *w == &b[..]).map(|(i, _)| i).take(400).collect()
                        };
                        // do the returned bytes sit in the content at the REQUESTED start? (a plain comparison with the
                        // request; which start/length the call should have used is decided by the specification)
                        let at_start = (sv as usize) < content.len()
                            && content.len() - sv as usize >= b.len()
                            && content[sv as usize..sv as usize + b.len()] == b[..];
                        json!({"ev": "range", "L": l, "s": sb, "e": eb, "st": "ok", "offs": offs, "at_start": at_start, "len": b.len(),
                               "alloc": alloc, "bytes_ok": b.is_empty() || !offs.is_empty()})
                    }
                };
                out.emit(&line);
            }
        }
        // "get_reader streams all L bytes" - also when the key is overwritten or removed (its blob reclaimed) between the
        // call and the reading
        let rdr = cas.get_reader(&key);
        if ki % 2 == 0 {
            let mut tx = cas.put(key).unwrap();
            tx.write(b"something else").unwrap();
            tx.finish().unwrap();
        } else {
            cas.remove(&key).unwrap();
        }
        let mut v = vec![];
        let rd_ok = match rdr {
            Ok(Some(mut r)) => r.read_to_end(&mut v).is_ok() && v == content,
            _ => false,
        };
        out.emit(&json!({"ev": "blobsize", "L": l, "size": l, "rdlen": v.len(), "rd_ok": rd_ok, "get_ok": true, "after": if ki % 2 == 0 { "overwrite" } else { "remove" }}));
        // an absent key
        let r = cas.get_range(&9999u32, 0, 10);
        out.emit(&json!({"ev": "range_absent", "ok": matches!(r, Ok(None)), "size_absent": matches!(cas.get_size(&9999u32), Ok(None))}));
    }
    drop(cas);
    let _ = std::fs::remove_dir_all(&root);
}

// ---------------------------------------------------------------- C18 blob identity, paths
fn compositions(n: usize, with_empty: bool) -> Vec<Vec<usize>> {
    // all ways of splitting n atoms into chunks (chunk = number of atoms, > 0), optionally with empty chunks inserted
    fn rec(n: usize, cur: &mut Vec<usize>, out: &mut Vec<Vec<usize>>) {
        if n == 0 {
            out.push(cur.clone());
            return;
        }
        for c in 1..=n {
            cur.push(c);
            rec(n - c, cur, out);
            cur.pop();
        }
    }
    let mut out = vec![];
    rec(n, &mut vec![], &mut out);
    if with_empty {
        let mut extra = vec![];
        for c in &out {
            for pos in 0..=c.len() {
                let mut d = c.clone();
                d.insert(pos, 0);
                extra.push(d);
            }
        }
        out.extend(extra);
    }
    out
}

fn nibbles(h: &[u8]) -> Vec<u8> {
    h.iter().flat_map(|b| [b >> 4, b & 15]).collect()
}
fn chars(s: &str) -> Vec<u32> {
    s.chars().map(|c| c as u32).collect()
}

pub fn run_blob(scratch: &Path, out: &mut Out, tier: &str, seed: u64) {
    let root = scratch.join("blobdb");
    let _ = std::fs::remove_dir_all(&root);
    let cas: Cas<u32> = Cas::open(&root, Config::default()).unwrap();
    let mut s = seed;
    let sizes: &[usize] = if tier == "quick" { &[1, 4096, 8192] } else { &[1, 4096, 5000, 8192, 70000] };
    let maxn = if tier == "quick" { 4 } else { 5 };
    let mut key = 0u32;
    for &asz in sizes {
        for n in 0..=maxn {
            let content: Vec<u8> = (0..n * asz).map(|_| rnd(&mut s) as u8).collect();
            let expect = blake3::hash(&content); // independent one-shot hash
            for ch in compositions(n, true) {
                key += 1;
                let mut tx = cas.put(key).unwrap();
                let mut off = 0;
                for c in &ch {
                    tx.write(&content[off..off + c * asz]).unwrap();
                    off += c * asz;
                }
                tx.finish().unwrap();
                let item = cas.read_index_state().get_item(&key).unwrap();
                let rel = item.blob_hash.relative_path();
                let file = root.join("cas").join(&rel);
                let bytes = std::fs::read(&file).ok();
                out.emit(&json!({"ev": "blob", "atoms": n, "asize": asz, "chunks": ch,
                    "hash_ok": item.blob_hash.as_bytes() == expect.as_bytes(), "size": item.blob_size,
                    "file_ok": bytes.as_ref().is_some_and(|b| b == &content),
                    "rel": rel.to_string_lossy(), "hex": item.blob_hash.to_hex(),
                    "calc_ok": cassadilia::calculate_blob_hash(&content) == item.blob_hash}));
                cas.remove(&key).unwrap();
            }
        }
    }
    // random long contents with random chunkings incl. empty chunks and chunks larger than the buffers
    for _ in 0..(if tier == "quick" { 20 } else { 300 }) {
        let len = (rnd(&mut s) % 200_000) as usize;
        let content: Vec<u8> = (0..len).map(|_| rnd(&mut s) as u8).collect();
        let expect = blake3::hash(&content);
        key += 1;
        let mut tx = cas.put(key).unwrap();
        let mut off = 0;
        let mut ch = vec![];
        while off < len {
            let c = match rnd(&mut s) % 5 {
                0 => 0,
                1 => 1,
                2 => (rnd(&mut s) % 9000) as usize,
                3 => 8192,
                _ => (rnd(&mut s) % 100_000) as usize,
            }
            .min(len - off);
            tx.write(&content[off..off + c]).unwrap();
            ch.push(c);
            off += c;
        }
        tx.finish().unwrap();
        let item = cas.read_index_state().get_item(&key).unwrap();
        let file = root.join("cas").join(item.blob_hash.relative_path());
        out.emit(&json!({"ev": "blobr", "len": len, "nchunks": ch.len(),
            "hash_ok": item.blob_hash.as_bytes() == expect.as_bytes(), "size": item.blob_size,
            "file_ok": std::fs::read(&file).ok().is_some_and(|b| b == content)}));
        cas.remove(&key).unwrap();
    }
    // the identity of a blob depends only on its bytes - not on what the handle did before or is doing meanwhile: an abandoned
    // transaction (bytes written, never committed) on the same or another key, a key that already holds a content of another
    // length (the recorded size follows the overwrite), another transaction open during the commit
    for round in 0..(if tier == "quick" { 24usize } else { 240 }) {
        let len = [0usize, 1, 5000, 8192, 70_000, 300][round % 6] + round;
        let content: Vec<u8> = (0..len).map(|_| rnd(&mut s) as u8).collect();
        let expect = blake3::hash(&content);
        key += 1;
        match round % 4 {
            0 => {
                let mut t = cas.put(key).unwrap();
                t.write(&content[..len / 2]).unwrap();
                t.write(b"never committed").unwrap();
                drop(t);
            }
            1 => {
                let mut t = cas.put(key).unwrap();
                t.write(&vec![7u8; len / 3 + 11 + round]).unwrap();
                t.finish().unwrap();
            }
            2 => {
                let mut t = cas.put(key + 5_000_000).unwrap();
                t.write(&vec![9u8; 10_000]).unwrap();
                drop(t);
            }
            _ => {}
        }
        let other = if round % 4 == 3 {
            let mut t = cas.put(key + 6_000_000).unwrap();
            t.write(b"open while the other one commits").unwrap();
            Some(t)
        } else {
            None
        };
        let mut tx = cas.put(key).unwrap();
        tx.write(&content[..len / 3]).unwrap();
        tx.write(&content[len / 3..]).unwrap();
        let fin = tx.finish();
        drop(other);
        let item = cas.read_index_state().get_item(&key);
        let hx: String = expect.as_bytes().iter().map(|b| format!("{b:02x}")).collect();
        let file = root.join("cas").join(&hx[0..2]).join(&hx[2..4]).join(&hx[4..]);
        out.emit(&json!({"ev": "blobr", "len": len, "nchunks": 2, "prelude": round % 4,
            "hash_ok": fin.is_ok() && item.is_some_and(|it| it.blob_hash.as_bytes() == expect.as_bytes()),
            "size": item.map_or(0, |it| it.blob_size),
            "file_ok": std::fs::read(&file).ok().is_some_and(|b| b == content)}));
        let _ = cas.remove(&key);
    }
    // a ladder of lengths around every power of two up to 4 MiB (thresholds of "large blob" fast paths), each written
    // whole, as small-then-large, as large-then-small and in 64 KiB pieces
    let mut ladder: Vec<usize> = vec![];
    for p in [12usize, 13, 14, 16, 17, 18, 20, 22] {
        for d in [-1i64, 0, 1] {
            ladder.push(((1i64 << p) + d) as usize);
        }
    }
    if tier == "quick" {
        ladder.retain(|l| *l <= (1 << 20) + 1 || *l == (1 << 22));
    }
    for (li, len) in ladder.iter().enumerate() {
        let content: Vec<u8> = (0..*len).map(|_| rnd(&mut s) as u8).collect();
        let expect = blake3::hash(&content);
        let variants: Vec<Vec<usize>> = vec![vec![*len], vec![5, len - 5], vec![len - 7, 7], {
            let mut v = vec![];
            let mut r = *len;
            while r > 0 {
                let c = r.min(65536);
                v.push(c);
                r -= c;
            }
            v
        }];
        for (vi, ch) in variants.iter().enumerate() {
            if tier == "quick" && *len > (1 << 20) + 1 && vi > 1 {
                continue;
            }
            key += 1;
            let mut tx = cas.put(key).unwrap();
            let mut off = 0;
            for c in ch {
                tx.write(&content[off..off + c]).unwrap();
                off += c;
            }
            let fin = tx.finish();
            let item = cas.read_index_state().get_item(&key);
            let hx: String = expect.as_bytes().iter().map(|b| format!("{b:02x}")).collect();
            let file = root.join("cas").join(&hx[0..2]).join(&hx[2..4]).join(&hx[4..]);
            out.emit(&json!({"ev": "blobr", "len": len, "nchunks": ch.len(), "ladder": li,
                "hash_ok": fin.is_ok() && item.is_some_and(|it| it.blob_hash.as_bytes() == expect.as_bytes()),
                "size": item.map_or(0, |it| it.blob_size),
                "file_ok": std::fs::read(&file).ok().is_some_and(|b| b == content)}));
            let _ = cas.remove(&key);
        }
    }
    // many CONSECUTIVE commits of small distinct contents (the location of a blob must not depend on what was
    // committed before it): every file must sit at the path derived from its own hash
    let nsmall = if tier == "quick" { 20_000 } else { 200_000 };
    let mut batch_bad = 0;
    let mut first_bad = json!(null);
    let mut live: Vec<u32> = vec![];
    for i in 0..nsmall {
        let content: Vec<u8> = rnd(&mut s).to_le_bytes().iter().chain(&(i as u64).to_le_bytes()).copied().collect();
        let expect = blake3::hash(&content);
        key += 1;
        let mut tx = cas.put(key).unwrap();
        tx.write(&content).unwrap();
        let fin = tx.finish();
        let hx: String = expect.as_bytes().iter().map(|b| format!("{b:02x}")).collect();
        let file = root.join("cas").join(&hx[0..2]).join(&hx[2..4]).join(&hx[4..]);
        let ok = fin.is_ok() && std::fs::read(&file).ok().is_some_and(|b| b == content) && cas.get(&key).ok().flatten().is_some_and(|b| b[..] == content[..]);
        if !ok {
            batch_bad += 1;
            if first_bad.is_null() {
                first_bad = json!({"i": i, "hex": hx, "finish_ok": fin.is_ok()});
            }
        }
        live.push(key);
        if live.len() == 500 {
            out.emit(&json!({"ev": "blobbatch", "n": 500, "bad": batch_bad, "first_bad": first_bad.to_string()}));
            batch_bad = 0;
            first_bad = json!(null);
            for k in live.drain(..) {
                let _ = cas.remove(&k);
            }
        }
    }
    drop(cas);
    {
        use std::os::unix::ffi::OsStrExt;
        // (a) the same store reopened by a caller who asks for the pre-created tree; (b) a database directory whose name is
        // not valid UTF-8: in both, a blob must sit at <root>/cas/<path derived from its hash>
        let odd = scratch.join(std::ffi::OsStr::from_bytes(b"db-\xe9-\xff"));
        let _ = std::fs::remove_dir_all(&odd);
        // (c) a first open with the pre-created tree that FAILS half way (a stray file sits where cas/80 should be created),
        // the obstacle is removed, the store is opened again: whatever the first attempt left behind, every blob of the
        // second session must sit at its path (also those whose directory the first attempt never reached)
        let half = scratch.join("db-half-precreated");
        let _ = std::fs::remove_dir_all(&half);
        std::fs::create_dir_all(half.join("cas")).unwrap();
        std::fs::write(half.join("cas").join("80"), b"in the way").unwrap();
        let first = Cas::<u32>::open(&half, Config { pre_create_cas_dirs: true, ..Default::default() });
        let first_failed = first.is_err();
        drop(first);
        let _ = std::fs::remove_file(half.join("cas").join("80"));
        for (tag, dir, pre) in [("reopen-pre", root.clone(), true), ("non-utf8-root", odd.clone(), false),
                                (if first_failed { "after-interrupted-precreate" } else { "after-precreate-over-stray-file" }, half.clone(), true)] {
            let cas: Cas<u32> = match Cas::open(&dir, Config { pre_create_cas_dirs: pre, ..Default::default() }) {
                Ok(c) => c,
                Err(_) => {
                    // the open itself failing is a result, not a harness problem
                    out.emit(&json!({"ev": "blobbatch", "n": 64, "bad": 64, "first_bad": format!("{tag}:open-failed")}));
                    continue;
                }
            };
            let mut bad = 0;
            for i in 0..64u32 {
                let content: Vec<u8> = rnd(&mut s).to_le_bytes().iter().chain(&(i as u64).to_le_bytes()).copied().collect();
                let expect = blake3::hash(&content);
                key += 1;
                let fin = cas.put(key).and_then(|mut tx| {
                    let _ = tx.write(&content);
                    tx.finish()
                });
                let hx: String = expect.as_bytes().iter().map(|b| format!("{b:02x}")).collect();
                let file = dir.join("cas").join(&hx[0..2]).join(&hx[2..4]).join(&hx[4..]);
                if !(fin.is_ok() && std::fs::read(&file).ok().is_some_and(|b| b == content)) {
                    bad += 1;
                }
            }
            out.emit(&json!({"ev": "blobbatch", "n": 64, "bad": bad, "first_bad": tag}));
            drop(cas);
        }
        let _ = std::fs::remove_dir_all(&half);
        let _ = std::fs::remove_dir_all(&odd);
    }
    let _ = std::fs::remove_dir_all(&root);
    // ---- hash <-> path
    let emit_path = |h: [u8; 32], out: &mut Out| {
        let bh = BlobHash::from_bytes(h);
        let rel = bh.relative_path();
        let comps: Vec<Vec<u32>> = rel.components().map(|c| chars(&c.as_os_str().to_string_lossy())).collect();
        let back = catch_unwind(|| BlobHash::from_relative_path(&rel));
        let parsed = match back {
            Ok(Ok(b)) => json!({"st": "ok", "nib": nibbles(b.as_bytes())}),
            Ok(Err(_)) => json!({"st": "err", "nib": []}),
            Err(_) => json!({"st": "panic", "nib": []}),
        };
        out.emit(&json!({"ev": "path", "nib": nibbles(&h), "comps": comps, "parsed": parsed}));
    };
    for pos in 0..32 {
        let vals: Vec<u16> = if tier == "quick" { vec![0, 1, 15, 16, 127, 128, 254, 255] } else { (0..256).collect() };
        for v in vals {
            let mut h = [0x5au8; 32];
            h[pos] = v as u8;
            emit_path(h, out);
        }
    }
    for _ in 0..(if tier == "quick" { 100 } else { 3000 }) {
        let mut h = [0u8; 32];
        for b in h.iter_mut() {
            *b = rnd(&mut s) as u8;
        }
        emit_path(h, out);
    }
    // a two-byte character at every position of an otherwise canonical 66-byte relative path
    {
        let canon = "ab/cd/0123456789abcdef0123456789abcdef0123456789abcdef0123456789ab";
        for pos in 0..canon.len() - 1 {
            if canon.as_bytes()[pos] == b'/' || canon.as_bytes()[pos + 1] == b'/' {
                continue;
            }
            let mut sname = String::new();
            sname.push_str(&canon[..pos]);
            sname.push('é');
            sname.push_str(&canon[pos + 2..]);
            let p = PathBuf::from(&sname);
            let r = catch_unwind(|| BlobHash::from_relative_path(&p));
            let comps: Vec<Vec<u32>> = p.components().map(|c| c.as_os_str().as_encoded_bytes().iter().map(|b| *b as u32).collect()).collect();
            let parsed = match r {
                Ok(Ok(b)) => json!({"st": "ok", "nib": nibbles(b.as_bytes())}),
                Ok(Err(_)) => json!({"st": "err", "nib": []}),
                Err(_) => json!({"st": "panic", "nib": []}),
            };
            out.emit(&json!({"ev": "parse", "comps": comps, "parsed": parsed}));
        }
    }
    // parser totality on arbitrary component strings
    let alphabet = ["", "a", "ab", "AB", "zz", "0", "abc", "..", "é", "0123456789abcdef0123456789abcdef0123456789abcdef0123456789ab",
                    "0123456789ABCDEF0123456789abcdef0123456789abcdef0123456789ab", "0123456789abcdef0123456789abcdef0123456789abcdef0123456789abcd"];
    for a in alphabet {
        for b in alphabet {
            for c in alphabet {
                let p: PathBuf = [a, b, c].iter().filter(|x| !x.is_empty()).collect();
                let r = catch_unwind(|| BlobHash::from_relative_path(&p));
                let comps: Vec<Vec<u32>> = p.components().map(|c| chars(&c.as_os_str().to_string_lossy())).collect();
                let parsed = match r {
                    Ok(Ok(b)) => json!({"st": "ok", "nib": nibbles(b.as_bytes())}),
                    Ok(Err(_)) => json!({"st": "err", "nib": []}),
                    Err(_) => json!({"st": "panic", "nib": []}),
                };
                out.emit(&json!({"ev": "parse", "comps": comps, "parsed": parsed}));
            }
        }
    }
}

// ---------------------------------------------------------------- C16 codecs
fn op_json(op: &WalOpRaw) -> Value {
    match op {
        WalOpRaw::Put { key_bytes, hash, size } => {
            json!({"t": "put", "key": key_bytes, "hash": hash.as_bytes().to_vec(), "size": size.to_le_bytes().to_vec(), "keys": []})
        }
        WalOpRaw::Remove { keys_bytes } => json!({"t": "rm", "key": [], "hash": [], "size": [], "keys": keys_bytes}),
    }
}

fn err_kind(e: &str) -> &'static str {
    if e.contains("unexpected end") {
        "eof"
    } else if e.contains("insufficient data") {
        "short"
    } else if e.contains("invalid variant") {
        "tag"
    } else {
        "other"
    }
}

fn dec_op_line(bytes: &[u8], why: &str) -> Value {
    mark(&json!({"ev": "dec_op", "bytes": bytes}));
    let (r, alloc) = measure(|| catch_unwind(|| verif::codec_deserialize_wal_op(bytes)));
    let res = match r {
        Err(_) => json!({"st": "panic", "op": {"t": "", "key": [], "hash": [], "size": [], "keys": []}}),
        Ok(Err(e)) => json!({"st": err_kind(&e), "op": {"t": "", "key": [], "hash": [], "size": [], "keys": []}}),
        Ok(Ok(op)) => json!({"st": "ok", "op": op_json(&op)}),
    };
    json!({"ev": "dec_op", "why": why, "bytes": bytes, "res": res, "alloc": alloc})
}

fn dec_snap_line(bytes: &[u8], why: &str) -> Value {
    mark(&json!({"ev": "dec_snap", "bytes": bytes}));
    let (r, alloc) = measure(|| catch_unwind(|| verif::codec_deserialize_index(bytes)));
    let empty = json!({"ver": [], "ents": []});
    let res = match r {
        Err(_) => json!({"st": "panic", "snap": empty}),
        Ok(Err(e)) => json!({"st": err_kind(&e), "snap": empty}),
        Ok(Ok((map, ver))) => {
            let ents: Vec<Value> = map
                .iter()
                .map(|(k, it)| json!({"key": k, "hash": it.blob_hash.as_bytes().to_vec(), "size": it.blob_size.to_le_bytes().to_vec()}))
                .collect();
            json!({"st": "ok", "snap": {"ver": ver.map_or(0u64, |v| v.get()).to_le_bytes().to_vec(), "ents": ents}})
        }
    };
    json!({"ev": "dec_snap", "why": why, "bytes": bytes, "res": res, "alloc": alloc})
}

fn all_strings(alpha: &[u8], maxlen: usize, f: &mut dyn FnMut(&[u8])) {
    fn rec(alpha: &[u8], maxlen: usize, cur: &mut Vec<u8>, f: &mut dyn FnMut(&[u8])) {
        f(cur);
        if cur.len() == maxlen {
            return;
        }
        for &a in alpha {
            cur.push(a);
            rec(alpha, maxlen, cur, f);
            cur.pop();
        }
    }
    rec(alpha, maxlen, &mut vec![], f);
}

/// snapshot round trip THROUGH a key type: the map is ordered by K's own order, which for the little-endian
/// integer keys is not the order of the encoded bytes
fn snapshot_roundtrip<K: KeyBytes + Ord + Clone + std::fmt::Debug>(name: &str, vals: Vec<K>, out: &mut Out) {
    let mut map: BTreeMap<K, IndexStateItem> = BTreeMap::new();
    for (i, v) in vals.iter().enumerate() {
        map.insert(v.clone(), IndexStateItem { blob_hash: BlobHash::from_bytes([i as u8; 32]), blob_size: i as u64 * 1000 });
    }
    let enc = verif::codec_serialize_index(&map, NonZeroU64::new(7));
    let r = catch_unwind(|| verif::codec_deserialize_index(&enc));
    let (st, same) = match r {
        Err(_) => ("panic".to_string(), false),
        Ok(Err(e)) => (format!("err:{}", err_kind(&e)), false),
        Ok(Ok((dec, ver))) => {
            let back: Option<BTreeMap<K, IndexStateItem>> =
                dec.iter().map(|(kb, it)| K::from_key_bytes(kb).map(|k| (k, *it))).collect();
            ("ok".to_string(), back.as_ref() == Some(&map) && ver == NonZeroU64::new(7))
        }
    };
    out.emit(&json!({"ev": "snaprt", "kt": name, "n": map.len(), "st": st, "same": same}));
    // the same entries written in DESCENDING key-byte order are a valid snapshot too (the format has no order rule)
    let mut ents: Vec<(Vec<u8>, IndexStateItem)> = map.iter().map(|(k, it)| (k.to_key_bytes().as_ref().to_vec(), *it)).collect();
    ents.sort_by(|a, b| b.0.cmp(&a.0));
    let mut bytes = 7u64.to_le_bytes().to_vec();
    bytes.extend((ents.len() as u32).to_le_bytes());
    for (k, it) in &ents {
        bytes.extend((k.len() as u32).to_le_bytes());
        bytes.extend(k);
        bytes.extend(it.blob_hash.as_bytes());
        bytes.extend(it.blob_size.to_le_bytes());
    }
    out.emit(&dec_snap_line(&bytes, "descending"));
}

fn key_roundtrip<K: KeyBytes + PartialEq + std::fmt::Debug>(name: &str, vals: Vec<K>, out: &mut Out) {
    for v in vals {
        let b = v.to_key_bytes().as_ref().to_vec();
        let b2 = v.to_key_bytes_owned();
        let back = K::from_key_bytes(&b);
        out.emit(&json!({"ev": "keyrt", "kt": name, "len": b.len(), "same_owned": b == b2, "back_ok": back.as_ref() == Some(&v)}));
    }
}

pub fn run_codec(scratch: &Path, out: &mut Out, tier: &str, seed: u64) {
    let q = tier == "quick";
    let mut s = seed;
    // ---- round trips of values
    let key_alpha: Vec<Vec<u8>> = {
        let mut v = vec![];
        all_strings(&[0, 1, 255], 2, &mut |k| v.push(k.to_vec()));
        v
    };
    let hashes = [[0u8; 32], [255u8; 32], {
        let mut h = [0u8; 32];
        for (i, b) in h.iter_mut().enumerate() {
            *b = i as u8;
        }
        h
    }];
    let sizes = [0u64, 1, 255, 256, u32::MAX as u64, 1 << 32, u64::MAX];
    let mut valid_ops: Vec<Vec<u8>> = vec![];
    for k in &key_alpha {
        for (hi, h) in hashes.iter().enumerate() {
            for (si, sz) in sizes.iter().enumerate() {
                if q && (hi + si) % 3 != 0 {
                    continue;
                }
                let op = WalOpRaw::Put { key_bytes: k.clone(), hash: BlobHash::from_bytes(*h), size: *sz };
                let enc = verif::codec_serialize_wal_op(&op).unwrap();
                out.emit(&json!({"ev": "enc_op", "op": op_json(&op), "bytes": enc}));
                valid_ops.push(enc);
            }
        }
    }
    for k1 in std::iter::once(None).chain(key_alpha.iter().map(Some)) {
        for k2 in std::iter::once(None).chain(key_alpha.iter().map(Some)) {
            let keys: Vec<Vec<u8>> = [k1, k2].iter().filter_map(|x| x.cloned()).collect();
            if k1.is_none() && k2.is_some() {
                continue;
            }
            let op = WalOpRaw::Remove { keys_bytes: keys };
            let enc = verif::codec_serialize_wal_op(&op).unwrap();
            out.emit(&json!({"ev": "enc_op", "op": op_json(&op), "bytes": enc}));
            valid_ops.push(enc);
        }
    }
    // a long key and many keys
    for op in [WalOpRaw::Put { key_bytes: vec![7; 300], hash: BlobHash::from_bytes([9; 32]), size: 77 },
               WalOpRaw::Remove { keys_bytes: (0..40u8).map(|i| vec![i; (i % 5) as usize]).collect() }] {
        let enc = verif::codec_serialize_wal_op(&op).unwrap();
        out.emit(&json!({"ev": "enc_op", "op": op_json(&op), "bytes": enc}));
        valid_ops.push(enc);
    }
    // snapshots
    let mut valid_snaps: Vec<Vec<u8>> = vec![];
    for ver in [0u64, 1, 300, u64::MAX] {
        for nkeys in 0..=2usize {
            for variant in 0..(if q { 2 } else { 5 }) {
                let mut map: BTreeMap<Vec<u8>, IndexStateItem> = BTreeMap::new();
                for i in 0..nkeys {
                    let k = key_alpha[(variant * 3 + i * 5) % key_alpha.len()].clone();
                    map.insert(k, IndexStateItem { blob_hash: BlobHash::from_bytes(hashes[(i + variant) % 3]), blob_size: sizes[(i + variant) % sizes.len()] });
                }
                let enc = verif::codec_serialize_index(&map, NonZeroU64::new(ver));
                let ents: Vec<Value> = map.iter().map(|(k, it)| json!({"key": k, "hash": it.blob_hash.as_bytes().to_vec(), "size": it.blob_size.to_le_bytes().to_vec()})).collect();
                out.emit(&json!({"ev": "enc_snap", "snap": {"ver": ver.to_le_bytes().to_vec(), "ents": ents}, "bytes": enc}));
                valid_snaps.push(enc);
            }
        }
    }
    // ---- decoders on arbitrary byte strings
    let alpha = [0u8, 1, 2, 255];
    let maxlen = if q { 6 } else { 8 };
    all_strings(&alpha, maxlen, &mut |b| {
        out.emit(&dec_op_line(b, "enum"));
    });
    all_strings(&alpha, if q { 5 } else { 7 }, &mut |b| {
        out.emit(&dec_snap_line(b, "enum"));
    });
    // every single-byte mutation, truncation and extension of valid encodings
    let muts = |enc: &Vec<u8>, f: &mut dyn FnMut(Vec<u8>)| {
        for cut in 0..enc.len() {
            f(enc[..cut].to_vec());
        }
        for i in 0..enc.len() {
            for v in [0u8, 1, 255, enc[i].wrapping_add(1)] {
                if v != enc[i] {
                    let mut m = enc.clone();
                    m[i] = v;
                    f(m);
                }
            }
        }
        for ext in [vec![0u8], vec![255, 255, 255, 255], vec![1, 0, 0, 0, 0]] {
            let mut m = enc.clone();
            m.extend(ext);
            f(m);
        }
    };
    let step = if q { 9 } else { 1 };
    for (i, enc) in valid_ops.iter().enumerate() {
        if i % step == 0 {
            muts(enc, &mut |m| out.emit(&dec_op_line(&m, "mut")));
        }
    }
    for (i, enc) in valid_snaps.iter().enumerate() {
        if i % step == 0 {
            muts(enc, &mut |m| out.emit(&dec_snap_line(&m, "mut")));
        }
    }
    // seeded random long inputs (length fields far larger than the data)
    for _ in 0..(if q { 200 } else { 5000 }) {
        let len = (rnd(&mut s) % 200) as usize;
        let b: Vec<u8> = (0..len).map(|_| [0u8, 1, 2, 255, 128, 7][(rnd(&mut s) % 6) as usize]).collect();
        out.emit(&dec_op_line(&b, "rand"));
        out.emit(&dec_snap_line(&b, "rand"));
    }
    // ---- framed segments through the crate's reader
    let segdir = scratch.join("segs");
    let _ = std::fs::remove_dir_all(&segdir);
    std::fs::create_dir_all(&segdir).unwrap();
    let frame = |ver: u64, payload: &[u8], good: bool| -> Vec<u8> {
        let mut v = ver.to_le_bytes().to_vec();
        let mut h = *blake3::hash(payload).as_bytes();
        if !good {
            h[0] ^= 1;
        }
        v.extend(h);
        v.extend((payload.len() as u32).to_le_bytes());
        v.extend(payload);
        v
    };
    let mut segs: Vec<Vec<u8>> = vec![];
    let p1 = valid_ops[0].clone();
    let p2 = valid_ops[valid_ops.len() - 1].clone();
    let base: Vec<u8> = [frame(1, &p1, true), frame(2, &p2, true)].concat();
    segs.push(vec![]);
    segs.push(base.clone());
    segs.push([base.clone(), vec![0u8; 44]].concat());
    segs.push([frame(1, &p1, true), vec![0u8; 44], frame(2, &p2, true)].concat());
    segs.push([frame(1, &p1, true), frame(2, &p2, false)].concat());
    segs.push([frame(1, &p1, true), frame(0, &p2, true)].concat());
    segs.push([frame(1, &p1, true), frame(5, &[], true)].concat());
    // extreme values of the length field (header size + length overflows u32 for the top 44 values), alone and behind a
    // valid record, with a few / no payload bytes behind
    for lenf in [0xFFFF_FFFFu32, 0xFFFF_FFD4, 0xFFFF_FFD3, 0xFFFF_FFE0, 0x8000_0000, 0x7FFF_FFFF, 0x0100_0000, 0x0001_0000, 0xFFFF] {
        for tail in [0usize, 3, 45] {
            let mut h = 9u64.to_le_bytes().to_vec();
            h.extend(*blake3::hash(b"x").as_bytes());
            h.extend(lenf.to_le_bytes());
            h.extend(vec![7u8; tail]);
            segs.push(h.clone());
            segs.push([frame(1, &p1, true), h].concat());
        }
    }
    for cut in 0..base.len() {
        if !q || cut % 3 == 0 {
            segs.push(base[..cut].to_vec());
        }
    }
    for i in (0..base.len()).step_by(if q { 7 } else { 1 }) {
        let mut m = base.clone();
        m[i] ^= 0x80;
        segs.push(m);
    }
    all_strings(&alpha, if q { 3 } else { 4 }, &mut |b| {
        // short arbitrary strings and arbitrary 44-byte headers built from them
        segs.push(b.to_vec());
        let mut h = vec![0u8; 44];
        for (i, x) in b.iter().enumerate() {
            h[[0, 8, 40, 41][i % 4]] = *x;
        }
        h.extend([1, 2, 3]);
        segs.push(h);
    });
    // checksum flags of the successive complete frames (BLAKE3 is not transcribed in the specification)
    let sums_of = |b: &[u8]| -> Vec<bool> {
        let mut v = vec![];
        let mut p = 0usize;
        while b.len() - p >= 44 {
            let ver = &b[p..p + 8];
            let len = u32::from_le_bytes(b[p + 40..p + 44].try_into().unwrap()) as usize;
            if ver.iter().all(|x| *x == 0) || len == 0 || b.len() - p - 44 < len {
                break;
            }
            v.push(blake3::hash(&b[p + 44..p + 44 + len]).as_bytes() == &b[p + 8..p + 40]);
            p += 44 + len;
        }
        v
    };
    for (i, seg) in segs.iter().enumerate() {
        let p = segdir.join(format!("{i}.wal"));
        std::fs::write(&p, seg).unwrap();
        let r = catch_unwind(|| verif::codec_read_segment(&p));
        let line = match r {
            Err(_) => json!({"ev": "dec_seg", "bytes": seg, "sums": sums_of(seg), "st": "panic", "entries": [], "err": ""}),
            Ok(Err(e)) => json!({"ev": "dec_seg", "bytes": seg, "sums": sums_of(seg), "st": "ioerr", "entries": [], "err": e}),
            Ok(Ok((ents, err))) => {
                let es: Vec<Value> = ents.iter().map(|(v, d)| json!({"v": v.to_le_bytes().to_vec(), "data": d})).collect();
                let kind = match &err {
                    None => "",
                    Some(e) if e.contains("checksum") => "checksum",
                    Some(e) if e.contains("ReadOpData") => "shortdata",
                    Some(_) => "other",
                };
                json!({"ev": "dec_seg", "bytes": seg, "sums": sums_of(seg), "st": "ok", "entries": es, "err": kind})
            }
        };
        out.emit(&line);
        let _ = std::fs::remove_file(&p);
        // the same bytes as the only WAL segment of a fresh directory: Cas::open must replay them or fail cleanly
        if i % (if q { 3 } else { 1 }) == 0 {
            let d = scratch.join("openwal");
            let _ = std::fs::remove_dir_all(&d);
            std::fs::create_dir_all(&d).unwrap();
            std::fs::write(d.join("0_index.wal"), seg).unwrap();
            mark(&json!({"ev": "open_wal", "bytes": seg}));
            let r = catch_unwind(|| {
                Cas::<Vec<u8>>::open_with_recover(&d, Config { fail_on_integrity_errors: false, num_ops_per_wal: NonZeroU64::new(1_000_000).unwrap(), ..Default::default() })
                    .map(|(c, _)| c.read_index_state().len())
            });
            let (st, n) = match r {
                Err(_) => ("panic", 0),
                Ok(Err(_)) => ("err", 0),
                Ok(Ok(n)) => ("ok", n),
            };
            out.emit(&json!({"ev": "open_wal", "bytes": seg, "sums": sums_of(seg), "st": st, "n": n}));
            let _ = std::fs::remove_dir_all(&d);
        }
    }
    // ---- Cas::open on crafted `index` files (String keys; all keys ASCII unless flagged)
    let opendir = scratch.join("openidx");
    let mut crafted: Vec<(Vec<u8>, bool)> = vec![(vec![], false)];
    for (i, enc) in valid_snaps.iter().enumerate() {
        if i % (if q { 4 } else { 1 }) != 0 {
            continue;
        }
        let ascii = |b: &Vec<u8>| -> Vec<u8> {
            // the snapshots above use key bytes 0, 1, 255: map 255 to 'z' so that every key is valid UTF-8
            let mut v = b.clone();
            let n = u32::from_le_bytes(v[8..12].try_into().unwrap()) as usize;
            let mut p = 12;
            for _ in 0..n {
                let kl = u32::from_le_bytes(v[p..p + 4].try_into().unwrap()) as usize;
                for x in v[p + 4..p + 4 + kl].iter_mut() {
                    if *x == 255 {
                        *x = b'z';
                    }
                }
                p += 4 + kl + 40;
            }
            v
        };
        let a = ascii(enc);
        crafted.push((a.clone(), false));
        for cut in [1usize, 8, 11, 12, a.len().saturating_sub(1), a.len().saturating_sub(9)] {
            if cut < a.len() {
                crafted.push((a[..cut].to_vec(), false));
            }
        }
        let mut ext = a.clone();
        ext.extend([9, 9, 9]);
        crafted.push((ext, false));
        if a.len() > 12 {
            let mut m = a.clone();
            m[8] = m[8].wrapping_add(1); // one more entry announced than present
            crafted.push((m, false));
            let mut m = a.clone();
            m[11] = 0xff; // huge entry count
            crafted.push((m, false));
        }
        crafted.push((enc.clone(), enc.windows(1).any(|w| w[0] == 255) && enc.len() > 12)); // may hold non-UTF-8 key bytes
    }
    for (bytes, maybe_bad_utf8) in crafted {
        let _ = std::fs::remove_dir_all(&opendir);
        std::fs::create_dir_all(&opendir).unwrap();
        std::fs::write(opendir.join("index"), &bytes).unwrap();
        let r = catch_unwind(|| {
            Cas::<String>::open_with_recover(&opendir, Config { fail_on_integrity_errors: false, ..Default::default() })
                .map(|(c, _)| c.read_index_state().len())
        });
        let (st, n) = match r {
            Err(_) => ("panic", 0),
            Ok(Err(_)) => ("err", 0),
            Ok(Ok(n)) => ("ok", n),
        };
        // are all key bytes of the decodable entries valid UTF-8? (computed here: UTF-8 is not transcribed)
        let utf8_ok = match verif::codec_deserialize_index(&bytes) {
            Ok((m, _)) => m.keys().all(|k| std::str::from_utf8(k).is_ok()),
            Err(_) => true,
        };
        let _ = maybe_bad_utf8;
        out.emit(&json!({"ev": "open_index", "bytes": bytes, "st": st, "n": n, "utf8_ok": utf8_ok}));
    }
    let _ = std::fs::remove_dir_all(&opendir);
    // ---- key type encodings
    key_roundtrip::<String>("String", vec![String::new(), "a".into(), "é€".into(), "x".repeat(9000)], out);
    key_roundtrip::<Vec<u8>>("Vec<u8>", vec![vec![], vec![0], vec![255; 300]], out);
    key_roundtrip::<[u8; 4]>("[u8;4]", vec![[0; 4], [255; 4], [1, 2, 3, 4]], out);
    key_roundtrip::<[u8; 0]>("[u8;0]", vec![[]], out);
    key_roundtrip::<u8>("u8", vec![0, 1, 255], out);
    key_roundtrip::<i8>("i8", vec![i8::MIN, -1, 0, i8::MAX], out);
    key_roundtrip::<u16>("u16", vec![0, 256, u16::MAX], out);
    key_roundtrip::<i16>("i16", vec![i16::MIN, -1, 0, i16::MAX], out);
    key_roundtrip::<u32>("u32", vec![0, 1, 256, u32::MAX], out);
    key_roundtrip::<i32>("i32", vec![i32::MIN, -1, 0, i32::MAX], out);
    key_roundtrip::<u64>("u64", vec![0, 1 << 40, u64::MAX], out);
    key_roundtrip::<i64>("i64", vec![i64::MIN, -1, 0, i64::MAX], out);
    key_roundtrip::<u128>("u128", vec![0, 1 << 100, u128::MAX], out);
    key_roundtrip::<i128>("i128", vec![i128::MIN, -1, 0, i128::MAX], out);
    snapshot_roundtrip::<String>("String", vec![String::new(), "a".into(), "b".into(), "é".into()], out);
    snapshot_roundtrip::<Vec<u8>>("Vec<u8>", vec![vec![], vec![0], vec![0, 0], vec![255]], out);
    snapshot_roundtrip::<[u8; 4]>("[u8;4]", vec![[0; 4], [0, 0, 0, 1], [0, 1, 0, 0], [255; 4]], out);
    snapshot_roundtrip::<u8>("u8", vec![0, 1, 255], out);
    snapshot_roundtrip::<u16>("u16", vec![0, 1, 255, 256, u16::MAX], out);
    snapshot_roundtrip::<i16>("i16", vec![i16::MIN, -1, 0, 1, i16::MAX], out);
    snapshot_roundtrip::<u32>("u32", vec![0, 1, 256, 65536, u32::MAX], out);
    snapshot_roundtrip::<i32>("i32", vec![i32::MIN, -256, -1, 0, 1, 256], out);
    snapshot_roundtrip::<u64>("u64", vec![0, 1, 256, 1 << 40, u64::MAX], out);
    snapshot_roundtrip::<i64>("i64", vec![i64::MIN, -5, -1, 0, 7, i64::MAX], out);
    snapshot_roundtrip::<u128>("u128", vec![0, 1, 256, 1 << 64, u128::MAX], out);
    snapshot_roundtrip::<i128>("i128", vec![i128::MIN, -1, 0, 1, i128::MAX], out);
    // wrong-length encodings are rejected, not mis-decoded
    out.emit(&json!({"ev": "keyrej", "u32_3": u32::from_key_bytes(&[1, 2, 3]).is_none(), "u32_5": u32::from_key_bytes(&[1, 2, 3, 4, 5]).is_none(),
                     "arr4_3": <[u8; 4]>::from_key_bytes(&[1, 2, 3]).is_none(), "str_bad_utf8": String::from_key_bytes(&[0xff, 0xfe]).is_none()}));
}
