//! gamma: concretisation of the abstract keys 1..4 and contents "A".."G" of the specifications.
//! Every key table is ascending in the key type's `Ord`, so the abstract order is the real order.

use std::fmt::Debug;
use std::hash::Hash;

use cassadilia::{BlobHash, KeyBytes};

pub const NK: usize = 4;
pub const CONTENT_NAMES: [&str; 8] = ["A", "B", "C", "E", "G", "H", "M", "X"];

pub trait HKey: KeyBytes + Clone + Eq + Ord + Hash + Debug + Send + Sync + 'static {
    /// Four keys, ascending, for the key-type variant `kt`.
    fn table(kt: &str) -> Vec<Self>;
}

impl HKey for String {
    fn table(kt: &str) -> Vec<Self> {
        if kt == "string_big" {
            // key 2 has a 9001-byte encoding: its log records exceed the 8 KiB BufWriter
            vec![String::new(), format!("a{}", "x".repeat(9000)), "b".into(), "c".into()]
        } else {
            vec![String::new(), "a".into(), "b".into(), "c".into()]
        }
    }
}
impl HKey for Vec<u8> {
    fn table(kt: &str) -> Vec<Self> {
        if kt == "bytes_big" {
            vec![vec![], vec![0], vec![0; 9000], vec![255]]
        } else {
            vec![vec![], vec![0], vec![0, 0], vec![255]]
        }
    }
}
impl HKey for [u8; 4] {
    fn table(_kt: &str) -> Vec<Self> {
        vec![[0, 0, 0, 0], [0, 0, 0, 1], [0, 1, 0, 0], [255, 255, 255, 255]]
    }
}
impl HKey for u32 {
    // little-endian encodings are NOT in numeric order: 256 = 00 01 00 00 sorts before 1 = 01 00 00 00
    fn table(_kt: &str) -> Vec<Self> {
        vec![0, 1, 256, u32::MAX]
    }
}
impl HKey for i64 {
    fn table(_kt: &str) -> Vec<Self> {
        vec![-5, -1, 0, 7]
    }
}
impl HKey for u128 {
    fn table(_kt: &str) -> Vec<Self> {
        vec![0, 1, 1u128 << 64, u128::MAX]
    }
}

#[macro_export]
macro_rules! with_key_type {
    ($kt:expr, $f:ident, $($arg:expr),*) => {
        match $kt {
            "string" | "string_big" => $f::<String>($($arg),*),
            "bytes" | "bytes_big" => $f::<Vec<u8>>($($arg),*),
            "arr4" => $f::<[u8; 4]>($($arg),*),
            "u32" => $f::<u32>($($arg),*),
            "i64" => $f::<i64>($($arg),*),
            "u128" => $f::<u128>($($arg),*),
            other => panic!("unknown key type {other}"),
        }
    };
}

pub fn content_size(name: &str) -> usize {
    match name {
        "A" => 11,
        "B" => 1,
        "C" => 8192,
        "E" => 0,
        "G" => 70000,
        "H" => 300000, // larger than any plausible internal read step (256 KiB)
        "M" => 1_200_000, // more than 1 MiB ("large blob" thresholds)
        "X" => 4_194_304, // exactly 4 MiB: a whole multiple of every plausible internal window (64 KiB, 1 MiB, 4 MiB)
        _ => panic!("unknown content {name}"),
    }
}

fn splitmix(x: &mut u64) -> u64 {
    *x = x.wrapping_add(0x9E3779B97F4A7C15);
    let mut z = *x;
    z = (z ^ (z >> 30)).wrapping_mul(0xBF58476D1CE4E5B9);
    z = (z ^ (z >> 27)).wrapping_mul(0x94D049BB133111EB);
    z ^ (z >> 31)
}

pub fn content_bytes(name: &str) -> Vec<u8> {
    let mut seed = 0xC0FFEE00u64 + name.as_bytes()[0] as u64;
    let n = content_size(name);
    let mut v = Vec::with_capacity(n);
    while v.len() < n {
        let r = splitmix(&mut seed).to_le_bytes();
        for b in r {
            if v.len() < n {
                v.push(b);
            }
        }
    }
    v
}

pub struct Universe<K> {
    pub kt: String,
    pub keys: Vec<K>,
    pub key_bytes: Vec<Vec<u8>>,
    pub contents: std::sync::Arc<Vec<(String, Vec<u8>, BlobHash)>>,
}

impl<K: HKey> Universe<K> {
    pub fn new(kt: &str) -> Self {
        let keys = K::table(kt);
        let key_bytes = keys.iter().map(|k| k.to_key_bytes().as_ref().to_vec()).collect();
        // the contents do not depend on the key type: built once per process
        static CONTENTS: std::sync::OnceLock<std::sync::Arc<Vec<(String, Vec<u8>, BlobHash)>>> = std::sync::OnceLock::new();
        let contents = CONTENTS
            .get_or_init(|| {
                std::sync::Arc::new(
                    CONTENT_NAMES
                        .iter()
                        .map(|n| {
                            let b = content_bytes(n);
                            // independent one-shot hash of the bytes
                            let h = BlobHash::from_bytes(*blake3::hash(&b).as_bytes());
                            (n.to_string(), b, h)
                        })
                        .collect(),
                )
            })
            .clone();
        Universe { kt: kt.to_string(), keys, key_bytes, contents }
    }
    pub fn key(&self, abs: usize) -> K {
        self.keys[abs - 1].clone()
    }
    pub fn abs_of_key(&self, k: &K) -> usize {
        self.keys.iter().position(|x| x == k).map_or(0, |p| p + 1)
    }
    pub fn abs_of_key_bytes(&self, kb: &[u8]) -> usize {
        self.key_bytes.iter().position(|x| x.as_slice() == kb).map_or(0, |p| p + 1)
    }
    pub fn content(&self, name: &str) -> &[u8] {
        &self.contents.iter().find(|c| c.0 == name).expect("content").1
    }
    pub fn hash_of(&self, name: &str) -> BlobHash {
        self.contents.iter().find(|c| c.0 == name).expect("content").2
    }
    pub fn name_of_hash(&self, h: &[u8]) -> String {
        self.contents.iter().find(|c| c.2.as_bytes() == h).map_or("?".to_string(), |c| c.0.clone())
    }
    pub fn name_of_bytes(&self, b: &[u8]) -> String {
        self.contents.iter().find(|c| c.1 == b).map_or("?".to_string(), |c| c.0.clone())
    }
    /// Decode a slice: (content name, offset, length) such that b == content[off..off+len].
    /// `hint` is tried first. An empty slice decodes to ("", 0, 0).
    pub fn locate_slice(&self, b: &[u8], hint: &str) -> (String, i64, i64) {
        if b.is_empty() {
            return (String::new(), 0, 0);
        }
        let mut order: Vec<&(String, Vec<u8>, BlobHash)> = self.contents.iter().collect();
        order.sort_by_key(|c| if c.0 == hint { 0 } else { 1 });
        for c in order {
            if c.1.len() >= b.len() {
                if let Some(pos) = c.1.windows(b.len()).position(|w| w == b) {
                    return (c.0.clone(), pos as i64, b.len() as i64);
                }
            }
        }
        ("?".to_string(), -1, b.len() as i64)
    }
}
