//! Binding to libfsshim.so (LD_PRELOAD). All functions degrade to no-ops when the shim is absent.

use std::ffi::{CStr, CString, c_char, c_int, c_long};
use std::path::Path;
use std::sync::Mutex;

pub const K_OPEN: i32 = 1;
pub const K_WRITE: i32 = 2;
pub const K_FSYNC: i32 = 3;
pub const K_FDATASYNC: i32 = 4;
pub const K_RENAME: i32 = 5;
pub const K_UNLINK: i32 = 6;
pub const K_MKDIR: i32 = 7;
pub const K_RMDIR: i32 = 8;
pub const K_FTRUNCATE: i32 = 9;
pub const K_FLOCK: i32 = 10;

pub fn kind_name(k: i32) -> &'static str {
    match k {
        1 => "open",
        2 => "write",
        3 => "fsync",
        4 => "fdatasync",
        5 => "rename",
        6 => "unlink",
        7 => "mkdir",
        8 => "rmdir",
        9 => "ftruncate",
        10 => "flock",
        _ => "?",
    }
}

#[derive(Debug, Clone)]
pub struct Call {
    pub kind: i32,
    pub p1: String,
    pub p2: Option<String>,
    pub a: i64,
    pub b: i64,
}

type Handler = Box<dyn FnMut(&Call) -> i32 + Send>;
static HANDLER: Mutex<Option<Handler>> = Mutex::new(None);
static OWNER: Mutex<Option<std::thread::ThreadId>> = Mutex::new(None);

type HookFn = extern "C" fn(c_int, *const c_char, *const c_char, c_long, c_long) -> c_int;

extern "C" fn hook(kind: c_int, p1: *const c_char, p2: *const c_char, a: c_long, b: c_long) -> c_int {
    // only the thread that installed the handler produces boundaries (the Async-mode background
    // sync thread must not: its timing relative to the main thread is not deterministic)
    let s1 = if p1.is_null() { String::new() } else { unsafe { CStr::from_ptr(p1) }.to_string_lossy().to_string() };
    // C06 monitor (any thread): a file under cas/ is only ever created by rename and removed by unlink; an open that
    // creates/truncates, a write or a truncate on such a path is an in-place modification
    if (kind == K_OPEN || kind == K_WRITE || kind == K_FTRUNCATE) && s1.contains("/cas/") {
        CAS_WRITES.fetch_add(1, std::sync::atomic::Ordering::Relaxed);
    }
    if *OWNER.lock().unwrap() != Some(std::thread::current().id()) {
        return 0;
    }
    let s2 = if p2.is_null() { None } else { Some(unsafe { CStr::from_ptr(p2) }.to_string_lossy().to_string()) };
    let call = Call { kind, p1: s1, p2: s2, a: a as i64, b: b as i64 };
    let mut g = HANDLER.lock().unwrap();
    match g.as_mut() {
        Some(h) => h(&call),
        None => 0,
    }
}

fn sym(name: &str) -> *mut libc::c_void {
    let c = CString::new(name).unwrap();
    unsafe { libc::dlsym(libc::RTLD_DEFAULT, c.as_ptr()) }
}

pub fn available() -> bool {
    !sym("fsshim_present").is_null()
}

pub fn set_root(root: Option<&Path>) {
    let p = sym("fsshim_set_root");
    if p.is_null() {
        return;
    }
    let f: extern "C" fn(*const c_char) = unsafe { std::mem::transmute(p) };
    match root {
        Some(r) => {
            let c = CString::new(r.to_string_lossy().as_bytes()).unwrap();
            f(c.as_ptr());
        }
        None => f(std::ptr::null()),
    }
}

/// Install `h` as the boundary handler of the calling thread for paths under `root`.
pub fn install(root: &Path, h: Handler) {
    let p = sym("fsshim_set_hook");
    assert!(!p.is_null(), "libfsshim.so is not preloaded");
    *OWNER.lock().unwrap() = Some(std::thread::current().id());
    *HANDLER.lock().unwrap() = Some(h);
    let f: extern "C" fn(HookFn) = unsafe { std::mem::transmute(p) };
    f(hook);
    set_root(Some(root));
}

pub fn uninstall() {
    set_root(None);
    *HANDLER.lock().unwrap() = None;
}

/// number of in-place modifications of files under cas/ seen so far (see `hook`)
pub static CAS_WRITES: std::sync::atomic::AtomicUsize = std::sync::atomic::AtomicUsize::new(0);
pub fn cas_writes() -> usize {
    CAS_WRITES.load(std::sync::atomic::Ordering::Relaxed)
}

/// Monitor only (no boundaries): every thread's calls under `root` are watched for in-place writes under cas/.
pub fn install_monitor(root: &Path) {
    let p = sym("fsshim_set_hook");
    if p.is_null() {
        return;
    }
    *OWNER.lock().unwrap() = None;
    *HANDLER.lock().unwrap() = None;
    let f: extern "C" fn(HookFn) = unsafe { std::mem::transmute(p) };
    f(hook);
    set_root(Some(root));
}
