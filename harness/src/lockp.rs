//! C11: exclusive ownership of a database directory, with real processes (this binary re-executed
//! as `casharn lockchild <root>`) and several handles per process.  The parent replays action
//! sequences (behaviours of spec/CasLock.tla printed by TLC) and records what really happened.

use std::collections::HashMap;
use std::io::{BufRead, BufReader, Write};
use std::path::{Path, PathBuf};
use std::process::{Child, ChildStdin, ChildStdout, Command, Stdio};
use std::sync::{Arc, Mutex};

use cassadilia::{Cas, Config, LibError, OrphanStats};
use serde_json::{Value, json};

use crate::seq::{Out, dir_digest};
use crate::shim::{self, Call};
use crate::store::err_class;

struct Handle {
    cas: Option<Cas<String>>,
    clones: Vec<Cas<String>>,
    stats: Option<OrphanStats<String>>,
}

/// child process: commands on stdin, one reply line per command
pub fn child_main(root: &Path) {
    let stdin = std::io::stdin();
    let mut handles: HashMap<u64, Handle> = HashMap::new();
    let mut spawned: Vec<std::process::Child> = vec![];
    let muts = Arc::new(Mutex::new(0usize));
    if shim::available() {
        let m = muts.clone();
        shim::install(
            root,
            Box::new(move |c: &Call| {
                let lock = c.p1.ends_with("/LOCK");
                let counted = match c.kind {
                    shim::K_MKDIR | shim::K_FLOCK | shim::K_FSYNC | shim::K_FDATASYNC => false,
                    shim::K_OPEN => !lock,
                    _ => true,
                };
                if counted {
                    *m.lock().unwrap() += 1;
                }
                0
            }),
        );
    }
    for line in stdin.lock().lines() {
        let line = line.unwrap();
        let mut it = line.split_whitespace();
        let cmd = it.next().unwrap_or("");
        let h: u64 = it.next().and_then(|x| x.parse().ok()).unwrap_or(0);
        let reply = match cmd {
            "cycle" => {
                // drop the handle and open again at once, 20 times, Async mode: the lock must be free as soon as the
                // last handle is gone (no background thread may keep it a little longer)
                let mut res = "ok".to_string();
                for _ in 0..20 {
                    handles.remove(&h);
                    match Cas::<String>::open_with_recover(root, Config { sync_mode: cassadilia::SyncMode::Async, ..Default::default() }) {
                        Ok((cas, stats)) => {
                            let _ = (|| -> Result<(), LibError> {
                                let mut tx = cas.put("cyc".to_string())?;
                                let _ = tx.write(b"x");
                                tx.finish()
                            })();
                            handles.insert(h, Handle { cas: Some(cas), clones: vec![], stats });
                        }
                        Err(e) => {
                            res = err_class(&e);
                            break;
                        }
                    }
                }
                res
            }
            "spawn" => {
                // a long-lived grandchild started while the handle is open: it must not inherit the directory lock
                match std::process::Command::new("sleep").arg("20").stdin(std::process::Stdio::null()).stdout(std::process::Stdio::null()).spawn() {
                    Ok(c) => {
                        spawned.push(c);
                        "ok".to_string()
                    }
                    Err(_) => "err".to_string(),
                }
            }
            "cleanup" => match handles.get(&h) {
                // the owner's orphan clean-up (both forms): whatever it removes, the directory stays owned
                Some(hd) if hd.stats.is_some() => {
                    let st = hd.stats.as_ref().unwrap();
                    let r1 = st.delete_orphans();
                    let r2 = st.quarantine_orphans(&root.with_file_name(format!("quarantine-{}", std::process::id())));
                    if r1.is_ok() && r2.is_ok() { "ok".to_string() } else { "err".to_string() }
                }
                _ => "nohandle".to_string(),
            },
            "open" | "openstats" | "openasync" | "openbad" | "openalias" => {
                *muts.lock().unwrap() = 0;
                let conf = if cmd == "openasync" {
                    Config { sync_mode: cassadilia::SyncMode::Async, ..Default::default() }
                } else if cmd == "openbad" {
                    // settings the store will reject (it was created with the default segment size) - and a request for the
                    // pre-created tree on top: a loser must not get as far as looking at either
                    Config { num_ops_per_wal: std::num::NonZeroU64::new(7777).unwrap(), pre_create_cas_dirs: true, ..Default::default() }
                } else {
                    Config::default()
                };
                // the same directory under another name: a symbolic link next to it (made by the parent), or a spelling with "."
                let alias: PathBuf = if h % 2 == 1 {
                    root.with_file_name("lockdb-alias")
                } else {
                    root.parent().unwrap().join(".").join(root.file_name().unwrap()).join(".")
                };
                let at: &Path = if cmd == "openalias" { &alias } else { root };
                let r: Result<(Cas<String>, Option<OrphanStats<String>>), LibError> = Cas::open_with_recover(at, conf);
                let m = *muts.lock().unwrap();
                match r {
                    Ok((cas, stats)) => {
                        let keep_cas = cmd != "openstats";
                        handles.insert(h, Handle { cas: if keep_cas { Some(cas) } else { None }, clones: vec![], stats });
                        format!("ok muts={m}")
                    }
                    Err(e) => format!("{} muts={m}", err_class(&e)),
                }
            }
            "clone" => match handles.get_mut(&h) {
                Some(hd) if hd.cas.is_some() => {
                    let c = hd.cas.as_ref().unwrap().clone();
                    hd.clones.push(c);
                    "ok".to_string()
                }
                _ => "nohandle".to_string(),
            },
            "dropclone" => match handles.get_mut(&h) {
                Some(hd) if !hd.clones.is_empty() => {
                    hd.clones.pop();
                    "ok".to_string()
                }
                _ => "nohandle".to_string(),
            },
            "dropcas" => match handles.get_mut(&h) {
                // drop the Cas value itself but keep clones / OrphanStats alive
                Some(hd) => {
                    hd.cas = None;
                    "ok".to_string()
                }
                None => "nohandle".to_string(),
            },
            "drop" => {
                handles.remove(&h);
                "ok".to_string()
            }
            "put" => match handles.get(&h).and_then(|hd| hd.cas.as_ref().or(hd.clones.first())) {
                Some(cas) => {
                    let r = (|| -> Result<(), LibError> {
                        let mut tx = cas.put(format!("k{h}"))?;
                        let _ = tx.write(b"data");
                        tx.finish()
                    })();
                    if r.is_ok() { "ok".to_string() } else { "err".to_string() }
                }
                None => "nohandle".to_string(),
            },
            "quit" => {
                for c in spawned.iter_mut() {
                    let _ = c.kill();
                    let _ = c.wait();
                }
                println!("bye");
                return;
            }
            _ => "unknown".to_string(),
        };
        println!("{reply}");
        std::io::stdout().flush().unwrap();
    }
}

struct Proc {
    child: Child,
    stdin: ChildStdin,
    stdout: BufReader<ChildStdout>,
}

fn spawn(root: &Path, shim_so: Option<&str>) -> Proc {
    let exe = std::env::current_exe().unwrap();
    let mut cmd = Command::new(exe);
    cmd.arg("lockchild").arg(root).stdin(Stdio::piped()).stdout(Stdio::piped()).stderr(Stdio::null());
    if let Some(s) = shim_so {
        cmd.env("LD_PRELOAD", s);
    }
    let mut child = cmd.spawn().unwrap();
    let stdin = child.stdin.take().unwrap();
    let stdout = BufReader::new(child.stdout.take().unwrap());
    Proc { child, stdin, stdout }
}

fn ask(p: &mut Proc, cmd: &str) -> String {
    if writeln!(p.stdin, "{cmd}").is_err() {
        return "dead".into();
    }
    let _ = p.stdin.flush();
    let mut s = String::new();
    match p.stdout.read_line(&mut s) {
        Ok(0) | Err(_) => "dead".into(),
        Ok(_) => s.trim().to_string(),
    }
}

/// scenario: {id, actions:[{a, h, p}], races:n}
pub fn run_lock_scenario(sc: &Value, scratch: &Path, out: &mut Out, shim_so: Option<&str>) {
    let root: PathBuf = scratch.join("lockdb");
    let _ = std::fs::remove_dir_all(&root);
    std::fs::create_dir_all(&root).unwrap();
    out.emit(&json!({"ev": "reset", "sid": sc["id"], "np": sc["np"], "nh": sc["nh"]}));
    let alias = root.with_file_name("lockdb-alias");
    let _ = std::fs::remove_file(&alias);
    std::os::unix::fs::symlink(&root, &alias).unwrap();
    let mut procs: HashMap<u64, Proc> = HashMap::new();
    for a in sc["actions"].as_array().cloned().unwrap_or_default() {
        let act = a["a"].as_str().unwrap_or("");
        let h = a["h"].as_u64().unwrap_or(0);
        let p = a["p"].as_u64().unwrap_or(0);
        if act == "kill" {
            if let Some(mut pr) = procs.remove(&p) {
                let _ = pr.child.kill();
                let _ = pr.child.wait();
            }
            out.emit(&json!({"ev": "lock", "a": act, "h": h, "p": p, "res": "ok", "muts": 0, "same": true}));
            continue;
        }
        let pr = procs.entry(p).or_insert_with(|| spawn(&root, shim_so));
        let before = dir_digest(&root);
        let reply = ask(pr, &format!("{act} {h}"));
        let after = dir_digest(&root);
        let (res, muts) = match reply.split_once(" muts=") {
            Some((r, m)) => (r.to_string(), m.parse::<i64>().unwrap_or(-1)),
            None => (reply.clone(), 0),
        };
        out.emit(&json!({"ev": "lock", "a": act, "h": h, "p": p, "res": res, "muts": muts, "same": before == after}));
    }
    // barrier-started racing opens (fresh processes, one handle each)
    let nr = sc["races"].as_u64().unwrap_or(0);
    for round in 0..nr {
        for (_, mut pr) in procs.drain() {
            let _ = ask(&mut pr, "quit");
            let _ = pr.child.wait();
        }
        let n = 2 + (round % 3);
        if round % 2 == 1 {
            let _ = std::fs::remove_dir_all(&root);
            std::fs::create_dir_all(&root).unwrap();
        }
        let mut ps: Vec<Proc> = (0..n).map(|_| spawn(&root, shim_so)).collect();
        // write all commands first, then read: the children race on the lock
        for pr in ps.iter_mut() {
            let _ = writeln!(pr.stdin, "open 1");
        }
        for pr in ps.iter_mut() {
            let _ = pr.stdin.flush();
        }
        let mut oks = 0;
        let mut already = 0;
        let mut other = 0;
        let mut loser_muts = 0;
        for pr in ps.iter_mut() {
            let mut s = String::new();
            let _ = pr.stdout.read_line(&mut s);
            if s.starts_with("ok") {
                oks += 1;
            } else if s.starts_with("AlreadyOpened") {
                already += 1;
                if let Some((_, m)) = s.trim().split_once(" muts=") {
                    loser_muts += m.parse::<i64>().unwrap_or(0);
                }
            } else {
                other += 1;
            }
        }
        out.emit(&json!({"ev": "race", "n": n, "oks": oks, "already": already, "other": other, "loser_muts": loser_muts, "fresh": round % 2 == 1}));
        for mut pr in ps {
            let _ = ask(&mut pr, "quit");
            let _ = pr.child.wait();
        }
    }
    for (_, mut pr) in procs.drain() {
        let _ = ask(&mut pr, "quit");
        let _ = pr.child.wait();
    }
    let _ = std::fs::remove_dir_all(&root);
    let _ = std::fs::remove_file(&alias);
    for e in std::fs::read_dir(scratch).into_iter().flatten().flatten() {
        if e.file_name().to_string_lossy().starts_with("quarantine-") {
            let _ = std::fs::remove_dir_all(e.path());
        }
    }
}
