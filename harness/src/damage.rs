//! Damaged logs (C10), planted garbage (C08), settings/version gate (C19).

use std::fs;
use std::panic::{AssertUnwindSafe, catch_unwind};
use std::path::{Path, PathBuf};

use serde_json::{Value, json};

use crate::alpha;
use crate::gamma::{HKey, NK, Universe};
use crate::seq::{Out, copy_dir, dir_digest};
use crate::store::{Cfg, Store, names_of};

fn fresh(scratch: &Path, name: &str) -> PathBuf {
    let p = scratch.join(name);
    let _ = fs::remove_dir_all(&p);
    p
}

/// run the operations on a fresh store, emitting ordinary op lines; returns the closed directory
fn run_base<K: HKey>(sid: &Value, cfg: &Cfg, ops: &[Value], sel0: usize, scratch: &Path, out: &mut Out, mode: &str) -> PathBuf {
    let root = fresh(scratch, "db");
    fs::create_dir_all(&root).unwrap();
    out.emit(&json!({"ev": "reset", "sid": sid, "cfg": cfg.to_json(), "mode": mode}));
    let mut st = Store::<K>::new(&root, cfg);
    let r = st.exec(&json!({"op": "open"}), 0);
    out.emit(&json!({"ev": "op", "i": 0, "op": {"op": "open"}, "res": r, "obs": st.observe()}));
    for (i, op) in ops.iter().enumerate() {
        let r = st.exec(op, sel0 + i);
        out.emit(&json!({"ev": "op", "i": i + 1, "op": op, "res": r, "obs": st.observe()}));
    }
    st.close();
    root
}

fn open_observe<K: HKey>(dir: &Path, cfg: &Cfg) -> Value {
    open_observe_cont::<K>(dir, cfg, false)
}

/// `cont`: beyond C10 - if the damaged directory was accepted, the store is USED: one put, a clean restart, and what
/// the restart shows (does an accepted cut poison the log for what is appended behind it?)
fn open_observe_cont<K: HKey>(dir: &Path, cfg: &Cfg, cont: bool) -> Value {
    let names = names_of(&Universe::<K>::new(&cfg.kt));
    let disk = alpha::alpha(dir, &names, NK);
    let mut st = Store::<K>::new(dir, cfg);
    let res = st.open();
    let obs = st.observe_opt(true);
    let mut contv = json!({"on": false});
    if cont && st.cas.is_some() {
        let put = st.exec(&json!({"op": "put", "k": 4, "c": "C"}), 0);
        let before = st.observe_opt(true);
        let re = st.exec(&json!({"op": "reopen"}), 0);
        let after = st.observe_opt(true);
        contv = json!({"on": true, "put": put, "reopen": re, "idx_before": before["idx"], "idx_after": after["idx"], "get_after": after["get"]});
    }
    st.close();
    json!({"disk": disk, "res": res, "obs": obs, "cont": contv})
}

pub fn run_damage<K: HKey>(sid: &Value, cfg: &Cfg, ops: &[Value], sel0: usize, scratch: &Path, out: &mut Out, env: &Value) {
    let names = names_of(&Universe::<K>::new(&cfg.kt));
    // env.crash = "two_segments": damage a CRASH IMAGE in which the un-checkpointed records span two
    // segment files (the state between the first record of a new segment and the rollover snapshot)
    let base = if env["crash"].as_str() == Some("two_segments") {
        out.emit(&json!({"ev": "reset", "sid": sid, "cfg": cfg.to_json(), "mode": "damage"}));
        let root = fresh(scratch, "db");
        fs::create_dir_all(&root).unwrap();
        let picked = fresh(scratch, "picked");
        let found = std::sync::Arc::new(std::sync::Mutex::new(false));
        {
            let (root2, picked2, found2) = (root.clone(), picked.clone(), found.clone());
            let names2 = names_of(&Universe::<K>::new(&cfg.kt));
            crate::shim::install(
                &root,
                Box::new(move |_c| {
                    let mut f = found2.lock().unwrap();
                    if !*f {
                        let d = alpha::alpha(&root2, &names2, NK);
                        let sv = d["snap"]["ver"].as_i64().unwrap_or(0);
                        let n = d["segs"].as_array().map_or(0, |a| {
                            a.iter()
                                .filter(|s| s["items"].as_array().is_some_and(|it| it.iter().any(|i| i["t"] == "rec" && i["v"].as_i64().unwrap_or(0) > sv)))
                                .count()
                        });
                        if n >= 2 {
                            copy_dir(&root2, &picked2);
                            *f = true;
                        }
                    }
                    0
                }),
            );
            let mut st = Store::<K>::new(&root, cfg);
            st.open();
            for (i, op) in ops.iter().enumerate() {
                st.exec(op, sel0 + i);
            }
            st.close();
            crate::shim::uninstall();
        }
        let _ = fs::remove_dir_all(&root);
        if !*found.lock().unwrap() {
            return;
        }
        picked
    } else {
        run_base::<K>(sid, cfg, ops, sel0, scratch, out, "damage")
    };
    let snap = alpha::decode_snapshot(&base.join("index"), &names, NK);
    let snap_ver = snap["ver"].as_i64().unwrap_or(0);
    let stride = env["stride"].as_u64().unwrap_or(1) as usize;
    let flipvals: Vec<u8> = env["flipvals"].as_array().map_or(vec![0xFF], |a| a.iter().map(|x| x.as_u64().unwrap() as u8).collect());
    let base_disk = alpha::alpha(&base, &names, NK);
    out.emit(&json!({"ev": "dmgbase", "disk": base_disk}));
    let dmg = fresh(scratch, "dmg");
    let mut n = 0usize;
    for (id, path) in alpha::segment_files(&base) {
        let bytes = fs::read(&path).unwrap();
        let (items, spans) = alpha::decode_segment(&bytes, &names);
        // first byte that belongs to a not-yet-checkpointed record of this segment
        let mut first_unck = None;
        for (it, sp) in items.iter().zip(spans.iter()) {
            if it["t"] == "rec" && it["v"].as_i64().unwrap_or(0) > snap_ver && first_unck.is_none() {
                first_unck = Some(sp.0);
            }
        }
        let Some(start) = first_unck else { continue };
        let fname = path.file_name().unwrap().to_owned();
        // truncation at every offset of the un-checkpointed part
        for at in start..bytes.len() {
            n += 1;
            if n % stride != 0 {
                continue;
            }
            let _ = fs::remove_dir_all(&dmg);
            copy_dir(&base, &dmg);
            fs::write(dmg.join(&fname), &bytes[..at]).unwrap();
            let rec = open_observe_cont::<K>(&dmg, cfg, true);
            out.emit(&json!({"ev": "dmg", "kind": "cut", "seg": id, "at": at, "val": 0, "rec": rec}));
        }
        // altered byte in the checksum or payload of every un-checkpointed record
        for (it, sp) in items.iter().zip(spans.iter()) {
            if !(it["t"] == "rec" && it["v"].as_i64().unwrap_or(0) > snap_ver) {
                continue;
            }
            let positions: Vec<usize> = (sp.0 + 8..sp.0 + 40).chain(sp.1..sp.2).collect();
            for at in positions {
                for fv in &flipvals {
                    n += 1;
                    if n % stride != 0 {
                        continue;
                    }
                    let _ = fs::remove_dir_all(&dmg);
                    copy_dir(&base, &dmg);
                    let mut b = bytes.clone();
                    b[at] ^= *fv;
                    fs::write(dmg.join(&fname), &b).unwrap();
                    let rec = open_observe::<K>(&dmg, cfg);
                    out.emit(&json!({"ev": "dmg", "kind": "flip", "seg": id, "at": at, "val": fv, "rec": rec}));
                }
            }
        }
    }
    let _ = fs::remove_dir_all(&dmg);
    let _ = fs::remove_dir_all(&base);
}

fn hexs(b: &[u8]) -> String {
    b.iter().map(|x| format!("{x:02x}")).collect()
}

fn canonical(root: &Path, h: &[u8]) -> PathBuf {
    let hx = hexs(h);
    root.join("cas").join(&hx[0..2]).join(&hx[2..4]).join(&hx[4..])
}

fn apply_plant<K: HKey>(dir: &Path, u: &Universe<K>, p: &Value) {
    let kind = p["kind"].as_str().unwrap_or("");
    let c = p["c"].as_str().unwrap_or("A");
    match kind {
        "orphan" => {
            let path = canonical(dir, u.hash_of(c).as_bytes());
            fs::create_dir_all(path.parent().unwrap()).unwrap();
            fs::write(path, u.content(c)).unwrap();
        }
        "junk" => {
            let name = p["name"].as_str().unwrap_or("junk.bin");
            let base = match p["level"].as_u64().unwrap_or(3) {
                1 => dir.join("cas"),
                2 => dir.join("cas").join("ab"),
                _ => dir.join("cas").join("ab").join("cd"),
            };
            fs::create_dir_all(&base).unwrap();
            fs::write(base.join(name), b"junk").unwrap();
        }
        "corrupt" => {
            let path = canonical(dir, u.hash_of(c).as_bytes());
            if let Ok(mut b) = fs::read(&path) {
                if b.is_empty() {
                    b.push(1);
                } else {
                    let i = b.len() / 2;
                    b[i] ^= 0x40;
                }
                fs::write(path, b).unwrap();
            }
        }
        "resize" => {
            let path = canonical(dir, u.hash_of(c).as_bytes());
            if let Ok(mut b) = fs::read(&path) {
                b.push(7);
                fs::write(path, b).unwrap();
            }
        }
        "delete" => {
            let _ = fs::remove_file(canonical(dir, u.hash_of(c).as_bytes()));
        }
        "staging" => {
            fs::write(dir.join("staging").join(p["name"].as_str().unwrap_or(".tmpLEFT")), b"left").unwrap();
        }
        "stagingdir" => {
            fs::create_dir_all(dir.join("staging").join("subdir")).unwrap();
        }
        "upper" => {
            // the blob's bytes under a name that hex-decodes to the hash but is not the canonical path
            let path = canonical(dir, u.hash_of(c).as_bytes());
            if path.exists() {
                let up = path.parent().unwrap().join(path.file_name().unwrap().to_string_lossy().to_uppercase());
                fs::rename(&path, up).unwrap();
            }
        }
        "split" => {
            // same hex digits, different split: cas/<3 digits>/<1 digit>/<60>
            let hx = hexs(u.hash_of(c).as_bytes());
            let path = canonical(dir, u.hash_of(c).as_bytes());
            if path.exists() {
                let d = dir.join("cas").join(&hx[0..3]).join(&hx[3..4]);
                fs::create_dir_all(&d).unwrap();
                fs::rename(&path, d.join(&hx[4..])).unwrap();
            }
        }
        _ => {}
    }
}

pub fn run_plant<K: HKey>(sid: &Value, cfg: &Cfg, ops: &[Value], sel0: usize, scratch: &Path, out: &mut Out, env: &Value) {
    let base = run_base::<K>(sid, cfg, ops, sel0, scratch, out, "plant");
    let u = Universe::<K>::new(&cfg.kt);
    let sets: Vec<Value> = env["plants"].as_array().cloned().unwrap_or_default();
    let dir = fresh(scratch, "plant");
    let src = scratch.join("plant-src");
    let _ = fs::remove_dir_all(&src);
    copy_dir(&base, &src);
    for set in sets {
        for verify in [false, true] {
            let _ = fs::remove_dir_all(&dir);
            copy_dir(&base, &dir);
            for p in set.as_array().cloned().unwrap_or_default() {
                apply_plant::<K>(&dir, &u, &p);
            }
            let mut c2 = cfg.clone();
            c2.verify = verify;
            let disk = alpha::alpha(&dir, &names_of(&u), NK);
            // the integrity gate of the plain `Cas::open` on a copy of the planted directory
            let strict = {
                let d2 = scratch.join("plant-strict");
                let _ = fs::remove_dir_all(&d2);
                copy_dir(&dir, &d2);
                let mut conf = c2.config();
                conf.fail_on_integrity_errors = true;
                let r = match catch_unwind(AssertUnwindSafe(|| cassadilia::Cas::<K>::open(&d2, conf))) {
                    Ok(Ok(_)) => crate::store::res_ok("ok", 0),
                    Ok(Err(e)) => crate::store::res_err(&crate::store::err_class(&e)),
                    Err(p) => crate::store::res_panic(&crate::store::panic_msg(p)),
                };
                let _ = fs::remove_dir_all(&d2);
                r
            };
            let mut st = Store::<K>::new(&dir, &c2);
            let res = st.open();
            let obs = st.observe();
            let cres = st.exec(&json!({"op": "cleanup"}), 0);
            let cobs = st.observe();
            st.close();
            // the two other clean-ups, each on its own copy of the planted directory
            let (qv, onev) = if verify { (json!({"on": false}), json!({"on": false})) } else { other_cleanups::<K>(&dir, &c2, &u, &set, scratch) };
            out.emit(&json!({"ev": "plant", "plants": set, "verify": verify, "strict": strict,
                             "rec": {"disk": disk, "res": res, "obs": obs}, "cres": cres, "cobs": cobs, "quar": qv, "one": onev}));
        }
    }
    let _ = fs::remove_dir_all(&dir);
    let _ = fs::remove_dir_all(&base);
    let _ = fs::remove_dir_all(&src);
}

/// `quarantine_orphans` into a fresh directory, and `delete_orphan` for every named content (orphaned or not), on
/// copies of the planted directory `dir` (which has been cleaned by `delete_orphans` meanwhile, so the plants are applied again).
fn other_cleanups<K: HKey>(dir: &Path, cfg: &Cfg, u: &Universe<K>, set: &Value, scratch: &Path) -> (Value, Value) {
    let names = names_of(u);
    let replant = |tag: &str| -> PathBuf {
        let d = scratch.join(tag);
        let _ = fs::remove_dir_all(&d);
        // dir was produced from base + plants and then cleaned; rebuild the planted state from its own listing is not
        // possible, so the caller's base copy is used: dir's parent holds "plant-src"
        copy_dir(&scratch.join("plant-src"), &d);
        for p in set.as_array().cloned().unwrap_or_default() {
            apply_plant::<K>(&d, u, &p);
        }
        d
    };
    let _ = dir;
    // ---- quarantine
    let qd = replant("plant-q");
    let qdir = scratch.join("quarantine");
    let _ = fs::remove_dir_all(&qdir);
    let mut st = Store::<K>::new(&qd, cfg);
    let r0 = st.open();
    let quar = if let (Some(_), Some(stats)) = (st.cas.as_ref(), st.stats.as_ref()) {
        let r = catch_unwind(AssertUnwindSafe(|| stats.quarantine_orphans(&qdir)));
        let (ok, n, sk, errs) = match r {
            Ok(Ok(rr)) => (true, rr.orphans_quarantined as i64, rr.orphans_skipped as i64, rr.errors.len() as i64),
            _ => (false, -1, -1, -1),
        };
        // what arrived in the quarantine directory: file name = hex of the hash, bytes = the content
        let mut moved = vec![];
        let mut intact = true;
        let mut strange = 0;
        for e in fs::read_dir(&qdir).into_iter().flatten().flatten() {
            let name = e.file_name().to_string_lossy().to_string();
            let bytes = fs::read(e.path()).unwrap_or_default();
            match names.contents.iter().find(|c| hexs(&c.1) == name) {
                Some(c) => {
                    moved.push(c.0.clone());
                    intact &= blake3::hash(&bytes).as_bytes() == &c.1;
                }
                None => {
                    // a planted file at the canonical path of a hash that is none of the named contents (its bytes are
                    // garbage by construction): an orphan like any other, it arrives under the hash its path spelled
                    if name.len() == 64 && name.bytes().all(|b| b.is_ascii_hexdigit()) {
                        moved.push("?".to_string());
                    } else {
                        strange += 1;
                    }
                }
            }
        }
        moved.sort();
        let o = st.observe();
        json!({"on": true, "open": r0, "ok": ok, "n": n, "skipped": sk, "errors": errs, "moved": moved, "intact": intact, "strange": strange, "obs": o})
    } else {
        json!({"on": false})
    };
    st.close();
    let _ = fs::remove_dir_all(&qd);
    let _ = fs::remove_dir_all(&qdir);
    // ---- delete_orphan, one hash at a time, for EVERY named content
    let od = replant("plant-one");
    let mut st = Store::<K>::new(&od, cfg);
    let r0 = st.open();
    let one = if let (Some(_), Some(stats)) = (st.cas.as_ref(), st.stats.as_ref()) {
        let mut res = vec![];
        for c in crate::gamma::CONTENT_NAMES.iter() {
            let h = u.hash_of(c);
            let v = match catch_unwind(AssertUnwindSafe(|| stats.delete_orphan(&h))) {
                Ok(Ok(true)) => "true",
                Ok(Ok(false)) => "false",
                Ok(Err(_)) => "err",
                Err(_) => "panic",
            };
            res.push(json!(v));
        }
        // and a second time: everything is gone or was never an orphan
        let again: Vec<Value> = crate::gamma::CONTENT_NAMES
            .iter()
            .map(|c| json!(matches!(catch_unwind(AssertUnwindSafe(|| stats.delete_orphan(&u.hash_of(c)))), Ok(Ok(false)))))
            .collect();
        let o = st.observe();
        json!({"on": true, "open": r0, "res": res, "again": again, "obs": o})
    } else {
        json!({"on": false})
    };
    st.close();
    let _ = fs::remove_dir_all(&od);
    (quar, one)
}

pub fn run_gate<K: HKey>(sid: &Value, cfg: &Cfg, ops: &[Value], sel0: usize, scratch: &Path, out: &mut Out, env: &Value) {
    let root = run_base::<K>(sid, cfg, ops, sel0, scratch, out, "gate");
    let trials: Vec<Value> = env["trials"].as_array().cloned().unwrap_or_default();
    for t in trials {
        let n2 = t["n2"].as_u64().unwrap_or(cfg.n);
        let ver = t["ver"].as_u64().unwrap_or(4);
        let sp = root.join("db_settings.json");
        let orig = fs::read(&sp).unwrap();
        if ver != 4 {
            let mut v: Value = serde_json::from_slice(&orig).unwrap();
            v["version"] = json!(ver);
            fs::write(&sp, serde_json::to_vec(&v).unwrap()).unwrap();
        }
        // "at any point of any history": an open that must be rejected finds the leftovers of a killed session (a staging
        // file, a half-written snapshot, a stray file under cas/) - it must not touch them either
        let litter: Vec<std::path::PathBuf> = if n2 != cfg.n || ver != 4 {
            vec![root.join("staging").join(".tmpLITTER"), root.join("index.tmp"), root.join("cas").join("not-a-blob")]
        } else {
            vec![]
        };
        for (i, l) in litter.iter().enumerate() {
            fs::write(l, vec![0x5au8; [20_000, 10, 3][i]]).unwrap();
        }
        let d1 = dir_digest(&root);
        let mut c2 = cfg.clone();
        c2.n = n2;
        c2.pre = t["pre2"].as_bool().unwrap_or(cfg.pre);
        let mut st = Store::<K>::new(&root, &c2);
        let res = st.open_with(&c2);
        let obs = st.observe();
        let admitted = st.cas.is_some();
        if !admitted {
            st.close();
        }
        let d2 = dir_digest(&root);
        for l in &litter {
            let _ = fs::remove_file(l);
        }
        fs::write(&sp, &orig).unwrap();
        out.emit(&json!({"ev": "gate", "n2": if n2 > i32::MAX as u64 { -1 } else { n2 as i64 }, "ver": ver, "res": res, "same": d1 == d2, "obs": obs}));
        if admitted {
            // an admitted open (possibly with the other pre-creation choice) must behave exactly like any other
            // handle: a few operations that need new cas/ sub-directories, judged like ordinary operations
            for (j, op) in t["ops"].as_array().cloned().unwrap_or_default().iter().enumerate() {
                let r = st.exec(op, j);
                out.emit(&json!({"ev": "op", "i": 2000 + j, "op": op, "res": r, "obs": st.observe()}));
            }
            st.close();
        }
        // a later correct open sees the data unchanged
        let mut st = Store::<K>::new(&root, cfg);
        let r = st.open();
        out.emit(&json!({"ev": "op", "i": 1000, "op": {"op": "reopen"}, "res": r, "obs": st.observe()}));
        st.close();
    }
    let _ = fs::remove_dir_all(&root);
}
