//! alpha: abstraction of a database directory to the disk value of the specifications.
//!
//! This is the "independent reader of the documented format" of property C20: it is written from
//! the format description (README / DESIGN.md 1.1) and uses none of the crate's decoders.
//!   index            [u64 ver][u32 n]{[u32 klen][key][32 hash][u64 size]}*
//!   <id>_index.wal   {[u64 version][32 blake3(payload)][u32 len][payload]}*, 44 zero bytes = end marker
//!   payload          0,[u32 klen][key][32 hash][u64 size]   |   1,[u32 n]{[u32 klen][key]}*
//!   cas/hh/hh/<60 hex>   the file's bytes hash (BLAKE3) to the name

use std::fs;
use std::path::{Path, PathBuf};

use serde_json::{Value, json};

pub struct Names {
    pub key_bytes: Vec<Vec<u8>>,
    pub contents: Vec<(String, [u8; 32], usize)>,
}

impl Names {
    pub fn key(&self, kb: &[u8]) -> i64 {
        self.key_bytes.iter().position(|x| x.as_slice() == kb).map_or(0, |p| p as i64 + 1)
    }
    pub fn content(&self, h: &[u8]) -> String {
        self.contents.iter().find(|c| c.1 == h).map_or("?".to_string(), |c| c.0.clone())
    }
}

struct Cur<'a> {
    b: &'a [u8],
    p: usize,
}
impl<'a> Cur<'a> {
    fn take(&mut self, n: usize) -> Option<&'a [u8]> {
        if self.b.len() - self.p < n {
            return None;
        }
        let s = &self.b[self.p..self.p + n];
        self.p += n;
        Some(s)
    }
    fn u32(&mut self) -> Option<u32> {
        self.take(4).map(|s| u32::from_le_bytes(s.try_into().unwrap()))
    }
    fn u64(&mut self) -> Option<u64> {
        self.take(8).map(|s| u64::from_le_bytes(s.try_into().unwrap()))
    }
    fn rest(&self) -> usize {
        self.b.len() - self.p
    }
}

fn empty_idx(nk: usize) -> Vec<Value> {
    vec![json!("-"); nk]
}

/// snapshot file -> {st, ver, idx, sizes}
pub fn decode_snapshot(path: &Path, names: &Names, nk: usize) -> Value {
    let none = |st: &str| json!({"st": st, "ver": 0, "idx": empty_idx(nk)});
    let Ok(b) = fs::read(path) else { return none("none") };
    if b.is_empty() {
        return none("empty");
    }
    let mut c = Cur { b: &b, p: 0 };
    let parsed = (|| {
        let ver = c.u64()?;
        let n = c.u32()?;
        let mut idx = empty_idx(nk);
        let mut extra = 0;
        for _ in 0..n {
            let kl = c.u32()? as usize;
            let kb = c.take(kl)?;
            let h = c.take(32)?;
            let sz = c.u64()?;
            let k = names.key(kb);
            let cn = names.content(h);
            let size_ok = names.contents.iter().any(|x| x.0 == cn && x.2 as u64 == sz);
            if k >= 1 && (k as usize) <= nk && size_ok {
                idx[k as usize - 1] = json!(cn);
            } else {
                extra += 1;
            }
        }
        if c.rest() != 0 || extra != 0 {
            return None;
        }
        Some(json!({"st": "full", "ver": ver, "idx": idx}))
    })();
    parsed.unwrap_or_else(|| none("undec"))
}

fn decode_payload(p: &[u8], names: &Names) -> Option<Value> {
    let mut c = Cur { b: p, p: 0 };
    let tag = c.take(1)?[0];
    match tag {
        0 => {
            let kl = c.u32()? as usize;
            let kb = c.take(kl)?;
            let h = c.take(32)?;
            let sz = c.u64()?;
            if c.rest() != 0 {
                return None;
            }
            Some(json!({"op": "put", "k": names.key(kb), "c": names.content(h), "sz": sz}))
        }
        1 => {
            let n = c.u32()?;
            let mut ks = vec![];
            for _ in 0..n {
                let kl = c.u32()? as usize;
                let kb = c.take(kl)?;
                ks.push(names.key(kb));
            }
            if c.rest() != 0 {
                return None;
            }
            Some(json!({"op": "rm", "ks": ks}))
        }
        _ => None,
    }
}

/// One segment file -> (items, byte spans of items (start, header_end, end))
pub fn decode_segment(b: &[u8], names: &Names) -> (Vec<Value>, Vec<(usize, usize, usize)>) {
    let mut items = vec![];
    let mut spans = vec![];
    let mut p = 0usize;
    while p < b.len() {
        let rest = b.len() - p;
        if rest < 44 {
            items.push(json!({"t": "torn"}));
            spans.push((p, b.len(), b.len()));
            break;
        }
        let hdr = &b[p..p + 44];
        let ver = u64::from_le_bytes(hdr[0..8].try_into().unwrap());
        let sum = &hdr[8..40];
        let len = u32::from_le_bytes(hdr[40..44].try_into().unwrap()) as usize;
        if ver == 0 {
            let t = if hdr.iter().all(|x| *x == 0) { "sent" } else { "zver" };
            items.push(json!({"t": t}));
            spans.push((p, p + 44, p + 44));
            p += 44;
            continue;
        }
        let v = if ver > i32::MAX as u64 { -1 } else { ver as i64 };
        if len == 0 {
            items.push(json!({"t": "zlen", "v": v}));
            spans.push((p, p + 44, p + 44));
            p += 44;
            continue;
        }
        if rest - 44 < len {
            items.push(json!({"t": "hdr", "v": v}));
            spans.push((p, p + 44, b.len()));
            break;
        }
        let payload = &b[p + 44..p + 44 + len];
        let ok = blake3::hash(payload).as_bytes() == sum;
        match (ok, decode_payload(payload, names)) {
            (true, Some(op)) => items.push(json!({"t": "rec", "v": v, "op": op})),
            _ => items.push(json!({"t": "bad", "v": v})),
        }
        spans.push((p, p + 44, p + 44 + len));
        p += 44 + len;
    }
    (items, spans)
}

pub fn segment_files(root: &Path) -> Vec<(u64, PathBuf)> {
    let mut v = vec![];
    if let Ok(rd) = fs::read_dir(root) {
        for e in rd.flatten() {
            let name = e.file_name().to_string_lossy().to_string();
            if let Some(id) = name.strip_suffix("_index.wal").and_then(|s| s.parse::<u64>().ok()) {
                v.push((id, e.path()));
            }
        }
    }
    v.sort();
    v
}

fn hex(b: &[u8]) -> String {
    b.iter().map(|x| format!("{x:02x}")).collect()
}

/// cas/ listing: (intact content names, names whose file bytes are wrong, unknown-but-valid, junk paths)
pub fn scan_cas(root: &Path, names: &Names) -> (Vec<String>, Vec<String>, usize, Vec<String>) {
    let mut ok = vec![];
    let mut bad = vec![];
    let mut unk = 0;
    let mut junk = vec![];
    let cas = root.join("cas");
    let rel = |p: &Path| p.strip_prefix(&cas).unwrap().to_string_lossy().to_string();
    let Ok(l1) = fs::read_dir(&cas) else { return (ok, bad, unk, junk) };
    for e1 in l1.flatten() {
        let p1 = e1.path();
        if !p1.is_dir() {
            junk.push(rel(&p1));
            continue;
        }
        for e2 in fs::read_dir(&p1).into_iter().flatten().flatten() {
            let p2 = e2.path();
            if !p2.is_dir() {
                junk.push(rel(&p2));
                continue;
            }
            for e3 in fs::read_dir(&p2).into_iter().flatten().flatten() {
                let p3 = e3.path();
                let r = rel(&p3);
                // canonical path of a known content?
                let known = names.contents.iter().find(|c| {
                    let h = hex(&c.1);
                    r == format!("{}/{}/{}", &h[0..2], &h[2..4], &h[4..])
                });
                match known {
                    Some(c) => {
                        let bytes = fs::read(&p3).unwrap_or_default();
                        if p3.is_file() && blake3::hash(&bytes).as_bytes() == &c.1 {
                            ok.push(c.0.clone());
                        } else {
                            bad.push(c.0.clone());
                        }
                    }
                    None => {
                        // canonical path of SOME hash (64 lower-case hex digits, file bytes match)?
                        let parts: Vec<&str> = r.split('/').collect();
                        let canonical = parts.len() == 3
                            && parts[0].len() == 2
                            && parts[1].len() == 2
                            && parts[2].len() == 60
                            && parts.iter().all(|p| p.bytes().all(|b| b.is_ascii_digit() || (b'a'..=b'f').contains(&b)));
                        if canonical && p3.is_file() {
                            unk += 1;
                        } else {
                            junk.push(r);
                        }
                    }
                }
            }
        }
    }
    ok.sort();
    bad.sort();
    junk.sort();
    (ok, bad, unk, junk)
}

pub fn staging_count(root: &Path) -> usize {
    fs::read_dir(root.join("staging")).map_or(0, |rd| rd.flatten().filter(|e| e.path().is_file()).count())
}

pub fn alpha(root: &Path, names: &Names, nk: usize) -> Value {
    let settings = match fs::read(root.join("db_settings.json")) {
        Err(_) => json!({"st": "none", "ver": 0, "n": 0}),
        Ok(b) => match serde_json::from_slice::<Value>(&b) {
            Ok(v) if v.get("version").is_some() && v.get("num_ops_per_wal").is_some() => {
                let n = v["num_ops_per_wal"].as_u64().unwrap_or(0);
                json!({"st": "full", "ver": v["version"].as_u64().unwrap_or(0),
                       "n": if n > i32::MAX as u64 { -1 } else { n as i64 }})
            }
            _ => json!({"st": "undec", "ver": 0, "n": 0}),
        },
    };
    let stmp = match fs::read(root.join("db_settings.json.tmp")) {
        Err(_) => "none",
        Ok(b) if b.is_empty() => "empty",
        Ok(b) => {
            if serde_json::from_slice::<Value>(&b).is_ok() {
                "full"
            } else {
                "partial"
            }
        }
    };
    let snap = decode_snapshot(&root.join("index"), names, nk);
    let snap_tmp = decode_snapshot(&root.join("index.tmp"), names, nk);
    let mut segs = vec![];
    for (id, p) in segment_files(root) {
        let b = fs::read(&p).unwrap_or_default();
        let (items, _) = decode_segment(&b, names);
        segs.push(json!({"id": id, "items": items, "bytes": b.len()}));
    }
    let (cas_ok, cas_bad, cas_unk, junk) = scan_cas(root, names);
    let mut rootjunk = 0;
    if let Ok(rd) = fs::read_dir(root) {
        for e in rd.flatten() {
            let n = e.file_name().to_string_lossy().to_string();
            let known = ["LOCK", "db_settings.json", "db_settings.json.tmp", "index", "index.tmp", "cas", "staging"]
                .contains(&n.as_str())
                || n.strip_suffix("_index.wal").is_some_and(|s| s.parse::<u64>().is_ok());
            if !known {
                rootjunk += 1;
            }
        }
    }
    json!({
        "settings": settings, "stmp": stmp, "snap": snap, "snapTmp": snap_tmp, "segs": segs,
        "cas": cas_ok, "casbad": cas_bad, "casunk": cas_unk, "junk": junk.len(), "stg": staging_count(root),
        "rootjunk": rootjunk,
        "ixfile": fs::metadata(root.join("index")).map_or(0, |m| m.len()),
    })
}
