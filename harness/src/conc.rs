//! Mode C: real threads run real API calls; every worker parks at each `cassadilia::verif::point`
//! and exactly one worker runs at a time, chosen by the controller.  Schedules are either given
//! (guided: behaviours of the CasConc specification printed by TLC) or explored here (DFS with a
//! pre-emption bound, seeded random) and then validated by TLC (TraceConc).

use std::collections::BTreeMap;
use std::fs;
use std::io::Read;
use std::ops::Bound;
use std::panic::{AssertUnwindSafe, catch_unwind};
use std::path::{Path, PathBuf};
use std::sync::{Arc, Condvar, Mutex};
use std::time::{Duration, Instant};

use cassadilia::verif::{self, Controller};
use cassadilia::{Cas, LibError, OrphanStats};
use serde_json::{Value, json};

use crate::alpha;
use crate::gamma::{HKey, NK, Universe};
use crate::seq::Out;
use crate::store::{Cfg, Store, err_class, names_of, panic_msg};

#[derive(Clone, Debug, PartialEq)]
enum Status {
    Running,
    At(&'static str),
    Done,
}

struct SchedState {
    status: Vec<Status>,
    grant: Vec<bool>,
    abort: bool,
}

struct Sched {
    st: Mutex<SchedState>,
    cv: Condvar,
    /// kernel thread ids of the workers (0 = not started yet)
    tids: Mutex<Vec<i32>>,
}

/// true if the kernel shows the thread asleep (state S: waiting on a futex, i.e. inside a lock) in every one of a few
/// samples.  A worker that is merely starved of CPU on a loaded machine is runnable (R) or in disk wait (D), and
/// must not be mistaken for one that is blocked in a lock.
fn thread_asleep(tid: i32) -> bool {
    if tid == 0 {
        return false;
    }
    for _ in 0..6 {
        let st = fs::read_to_string(format!("/proc/self/task/{tid}/stat")).unwrap_or_default();
        // "pid (comm) S ..." - the state follows the last ')'
        let state = st.rfind(')').and_then(|i| st[i + 1..].split_whitespace().next().map(|x| x.to_string()));
        match state.as_deref() {
            Some("S") => {}
            Some(_) => return false,
            None => return true, // the thread is gone
        }
        std::thread::sleep(Duration::from_millis(10));
    }
    true
}

impl Sched {
    fn park(&self, t: usize, name: &'static str) {
        let mut g = self.st.lock().unwrap();
        g.status[t] = Status::At(name);
        self.cv.notify_all();
        while !g.grant[t] && !g.abort {
            g = self.cv.wait(g).unwrap();
        }
        g.grant[t] = false;
        g.status[t] = Status::Running;
    }
    fn done(&self, t: usize) {
        let mut g = self.st.lock().unwrap();
        g.status[t] = Status::Done;
        self.cv.notify_all();
    }
    /// release t and wait until it parks again or finishes; false = it did not within `timeout`
    fn step(&self, t: usize, timeout: Duration) -> bool {
        let mut g = self.st.lock().unwrap();
        g.grant[t] = true;
        g.status[t] = Status::Running;
        self.cv.notify_all();
        let mut deadline = Instant::now() + timeout;
        let hard = Instant::now() + Duration::from_secs(120);
        while g.status[t] == Status::Running {
            let now = Instant::now();
            if now >= deadline {
                // blocked in a lock (asleep) or only slow (runnable / in disk wait on a loaded machine)?
                let tid = self.tids.lock().unwrap()[t];
                drop(g);
                let asleep = thread_asleep(tid);
                g = self.st.lock().unwrap();
                if g.status[t] != Status::Running {
                    break;
                }
                if asleep || now >= hard {
                    return false;
                }
                deadline = Instant::now() + timeout;
                continue;
            }
            let (ng, _) = self.cv.wait_timeout(g, deadline - now).unwrap();
            g = ng;
        }
        true
    }
    fn all_running_asleep(&self) -> bool {
        let st = self.status();
        let tids = self.tids.lock().unwrap().clone();
        st.iter().enumerate().all(|(t, s)| *s != Status::Running || thread_asleep(tids[t]))
    }
    fn status(&self) -> Vec<Status> {
        self.st.lock().unwrap().status.clone()
    }
    fn wait_parked(&self, timeout: Duration) -> bool {
        let mut g = self.st.lock().unwrap();
        let mut deadline = Instant::now() + timeout;
        let hard = Instant::now() + Duration::from_secs(120);
        while g.status.iter().any(|s| *s == Status::Running) {
            let now = Instant::now();
            if now >= deadline {
                drop(g);
                let asleep = self.all_running_asleep();
                g = self.st.lock().unwrap();
                if asleep || now >= hard {
                    return false;
                }
                deadline = Instant::now() + timeout;
                continue;
            }
            let (ng, _) = self.cv.wait_timeout(g, deadline - now).unwrap();
            g = ng;
        }
        true
    }
}

struct Handle {
    sched: Arc<Sched>,
    t: usize,
}
impl Controller for Handle {
    fn point(&self, name: &'static str) {
        self.sched.park(self.t, name);
    }
}

fn bound<K: HKey>(u: &Universe<K>, b: &Value) -> Bound<K> {
    let k = b[1].as_u64().unwrap_or(0) as usize;
    match b[0].as_str().unwrap_or("U") {
        "I" => Bound::Included(u.key(k)),
        "X" => Bound::Excluded(u.key(k)),
        _ => Bound::Unbounded,
    }
}

/// one API call of a worker; result as {ok, val, n, err}
fn exec_op<K: HKey>(cas: &Cas<K>, stats: Option<&OrphanStats<K>>, u: &Universe<K>, op: &Value, qdir: &Path) -> Value {
    let name = op["op"].as_str().unwrap_or("");
    let ok = |val: String, n: i64| json!({"ok": true, "val": val, "n": n, "err": ""});
    let r = catch_unwind(AssertUnwindSafe(|| -> Result<Value, LibError> {
        let key = || u.key(op["k"].as_u64().unwrap() as usize);
        match name {
            "put" | "abort" => {
                let content = u.content(op["c"].as_str().unwrap());
                let mut tx = cas.put(key())?;
                tx.write(content).map_err(|e| LibError::Io {
                    operation: cassadilia::LibIoOperation::WriteStagingFile,
                    path: None,
                    source: std::io::Error::other(e.to_string()),
                })?;
                if name == "put" {
                    tx.finish()?;
                }
                Ok(ok("ok".into(), 0))
            }
            "putfail" => {
                // fault x concurrency: a commit whose rename into cas/ fails AFTER its intent was registered. The staging file of
                // this transaction (the one that appears in staging/ during cas.put - no other worker runs meanwhile) is removed
                // before finish(); finish() must report an error and revert exactly its own intent.
                let content = u.content(op["c"].as_str().unwrap());
                let sd = cas.root_path().join("staging");
                let list = |d: &Path| -> std::collections::HashSet<std::path::PathBuf> {
                    std::fs::read_dir(d).into_iter().flatten().flatten().map(|e| e.path()).collect()
                };
                let before = list(&sd);
                let mut tx = cas.put(key())?;
                tx.write(content).map_err(|e| LibError::Io {
                    operation: cassadilia::LibIoOperation::WriteStagingFile,
                    path: None,
                    source: std::io::Error::other(e.to_string()),
                })?;
                for p in list(&sd).difference(&before) {
                    let _ = std::fs::remove_file(p);
                }
                Ok(match tx.finish() {
                    Err(_) => ok("failed".into(), 0),
                    Ok(()) => ok("ok".into(), 0),
                })
            }
            "get" => Ok(match cas.get(&key())? {
                Some(b) => ok(u.name_of_bytes(&b), b.len() as i64),
                None => ok("-".into(), 0),
            }),
            "size" => Ok(match cas.get_size(&key())? {
                Some(s) => {
                    let nm = u.contents.iter().filter(|c| c.1.len() as u64 == s).map(|c| c.0.clone()).next();
                    ok(nm.unwrap_or("?".into()), s as i64)
                }
                None => ok("-".into(), 0),
            }),
            "range" => Ok(match cas.get_range(&key(), 0, u64::MAX)? {
                Some(b) => ok(u.name_of_bytes(&b), b.len() as i64),
                None => ok("-".into(), 0),
            }),
            "reader" => Ok(match cas.get_reader(&key())? {
                Some(mut r) => {
                    let mut v = vec![];
                    match r.read_to_end(&mut v) {
                        Ok(_) => ok(u.name_of_bytes(&v), v.len() as i64),
                        Err(_) => json!({"ok": false, "val": "err", "n": 0, "err": "read"}),
                    }
                }
                None => ok("-".into(), 0),
            }),
            "del" => Ok(ok(if cas.remove(&key())? { "true" } else { "false" }.into(), 0)),
            "delr" => {
                let n = cas.remove_range((bound(u, &op["lo"]), bound(u, &op["hi"])))?;
                Ok(ok("count".into(), n as i64))
            }
            "ckpt" => {
                cas.checkpoint()?;
                Ok(ok("ok".into(), 0))
            }
            "cleanup" => match stats {
                Some(st) => {
                    let r = st.delete_orphans()?;
                    Ok(ok("ok".into(), r.orphans_deleted as i64))
                }
                None => Ok(ok("ok".into(), 0)),
            },
            "quarantine" => match stats {
                Some(st) => {
                    let r = st.quarantine_orphans(qdir)?;
                    Ok(ok("ok".into(), r.orphans_quarantined as i64))
                }
                None => Ok(ok("ok".into(), 0)),
            },
            "cleanone" => match stats {
                Some(st) => {
                    let h = u.hash_of(op["c"].as_str().unwrap());
                    Ok(ok(if st.delete_orphan(&h)? { "true" } else { "false" }.into(), 0))
                }
                None => Ok(ok("false".into(), 0)),
            },
            other => Ok(json!({"ok": false, "val": "err", "n": 0, "err": format!("unknown op {other}")})),
        }
    }));
    match r {
        Ok(Ok(v)) => v,
        Ok(Err(e)) => json!({"ok": false, "val": "err", "n": 0, "err": err_class(&e)}),
        Err(p) => json!({"ok": false, "val": "panic", "n": 0, "err": panic_msg(p)}),
    }
}

fn lock_of(point: &str) -> &'static str {
    if point.starts_with("I:") {
        "I"
    } else if point.starts_with("Sw:") {
        "Sw"
    } else if point.starts_with("Sr:") {
        "Sr"
    } else if point.starts_with("W:") {
        "W"
    } else {
        ""
    }
}

fn snapshot<K: HKey>(cas: &Cas<K>, u: &Universe<K>, root: &Path, names: &alpha::Names) -> Value {
    let m = verif::lock_mask(cas.as_arc());
    let idx = verif::index_snapshot(cas.as_arc()).map(|(map, _)| {
        let mut v = vec![json!("-"); NK];
        for (k, item) in map.iter() {
            let a = u.abs_of_key(k);
            if a >= 1 {
                v[a - 1] = json!(u.name_of_hash(item.blob_hash.as_bytes()));
            }
        }
        v
    });
    let intents = verif::intents_snapshot(cas.as_arc()).map(|map: BTreeMap<K, cassadilia::BlobHash>| {
        let mut v = vec![json!("-"); NK];
        for (k, h) in map.iter() {
            let a = u.abs_of_key(k);
            if a >= 1 {
                v[a - 1] = json!(u.name_of_hash(h.as_bytes()));
            }
        }
        v
    });
    let (ok, bad, unk, junk) = alpha::scan_cas(root, names);
    json!({
        "mask": {"i": m.intents, "s": m.state, "w": m.wal},
        "idx": idx.clone().map_or(json!([]), |v| json!(v)), "has_idx": idx.is_some(),
        "intents": intents.clone().map_or(json!([]), |v| json!(v)), "has_intents": intents.is_some(),
        "nv": verif::next_op_version(cas.as_arc()).map_or(0, |v| v as i64),
        "casw": crate::shim::cas_writes(),
        "cas": ok, "casbad": bad, "casunk": unk, "junk": junk.len(), "stg": alpha::staging_count(root),
        // the directory as an independent reader of the documented formats sees it at this instant (every worker is
        // parked): what a process kill right now would leave behind
        "disk": alpha::alpha(root, names, NK),
    })
}

pub struct RunResult {
    pub events: Vec<Value>,
    pub choices: Vec<(Vec<usize>, usize)>, // enabled set, chosen
    pub blocked: bool,
    /// the directory as decoded after the last scheduling step
    pub last_disk: Value,
}

/// Execute one schedule on a fresh store. `prefix` = forced thread choices; afterwards `policy`.
#[allow(clippy::too_many_arguments)]
pub fn run_schedule<K: HKey>(
    cfg: &Cfg,
    init: &[Value],
    plant: &[Value],
    progs: &[Vec<Value>],
    prefix: &[usize],
    rnd: &mut Option<u64>,
    scratch: &Path,
    strict: bool,
) -> RunResult {
    let root = scratch.join("cdb");
    let _ = fs::remove_dir_all(&root);
    fs::create_dir_all(&root).unwrap();
    let qdir = scratch.join("quarantine");
    let _ = fs::remove_dir_all(&qdir);
    // ---- set-up (sequential, no controller): initial operations, optional planted orphans, reopen
    let mut st = Store::<K>::new(&root, cfg);
    st.open();
    for (i, op) in init.iter().enumerate() {
        st.exec(op, i);
    }
    if !plant.is_empty() {
        st.close();
        for p in plant {
            if p["kind"].as_str() == Some("staging") {
                // a leftover staging file of an earlier crash (reported by the scan, removed by clean-up)
                fs::write(root.join("staging").join(".tmpLEFT"), b"left").unwrap();
                continue;
            }
            let c = p["c"].as_str().unwrap_or("C");
            let h = st.u.hash_of(c);
            let path = root.join("cas").join(h.relative_path());
            if p["kind"].as_str() == Some("delete") {
                // a referenced blob goes missing (the state OrphanStats::missing_blobs reports)
                let _ = fs::remove_file(&path);
            } else {
                fs::create_dir_all(path.parent().unwrap()).unwrap();
                fs::write(&path, st.u.content(c)).unwrap();
            }
        }
        st.open();
    }
    let cas = st.cas.clone().expect("open");
    crate::shim::install_monitor(&root); // watch for in-place writes under cas/ by any thread (if the shim is loaded)
    let stats: Option<Arc<OrphanStats<K>>> = st.stats.take().map(Arc::new);
    // the order in which the clean-up routines will visit the orphans (directory order, not plant order)
    let orph_order: Vec<String> =
        stats.as_ref().map_or(vec![], |s| s.orphaned_blobs.iter().map(|h| st.u.name_of_hash(h.as_bytes())).collect());
    let u = Arc::new(Universe::<K>::new(&cfg.kt));
    let names = names_of(&u);
    let n = progs.len();
    let sched = Arc::new(Sched {
        st: Mutex::new(SchedState { status: vec![Status::Running; n], grant: vec![false; n], abort: false }),
        cv: Condvar::new(),
        tids: Mutex::new(vec![0; n]),
    });
    let results: Arc<Mutex<Vec<Vec<Value>>>> = Arc::new(Mutex::new(vec![vec![]; n]));
    let mut handles = vec![];
    for (t, prog) in progs.iter().enumerate() {
        let cas = cas.clone();
        let stats = stats.clone();
        let u = u.clone();
        let sched = sched.clone();
        let prog = prog.clone();
        let results = results.clone();
        let qdir = qdir.clone();
        handles.push(std::thread::spawn(move || {
            sched.tids.lock().unwrap()[t] = unsafe { libc::syscall(libc::SYS_gettid) } as i32;
            verif::install(Some(Arc::new(Handle { sched: sched.clone(), t })));
            // a user-held IndexReadGuard, kept alive across the following calls of this thread
            let mut held = None;
            // a transaction that stays open across the following calls of this thread (txbegin .. txfinish | txabort)
            let mut open_tx: Option<cassadilia::Transaction<'_, K>> = None;
            for op in prog.iter() {
                sched.park(t, "call");
                let r = match op["op"].as_str() {
                    Some("txbegin") => {
                        let content = u.content(op["c"].as_str().unwrap());
                        match cas.put(u.key(op["k"].as_u64().unwrap() as usize)) {
                            Ok(mut tx) => {
                                let w = tx.write(content);
                                open_tx = Some(tx);
                                json!({"ok": w.is_ok(), "val": "ok", "n": 0, "err": if w.is_ok() { "" } else { "write" }})
                            }
                            Err(e) => json!({"ok": false, "val": "err", "n": 0, "err": err_class(&e)}),
                        }
                    }
                    Some("txfinish") => match open_tx.take() {
                        Some(tx) => match tx.finish() {
                            Ok(()) => json!({"ok": true, "val": "ok", "n": 0, "err": ""}),
                            Err(e) => json!({"ok": false, "val": "err", "n": 0, "err": err_class(&e)}),
                        },
                        None => json!({"ok": false, "val": "err", "n": 0, "err": "no-open-tx"}),
                    },
                    Some("txabort") => {
                        open_tx = None;
                        json!({"ok": true, "val": "ok", "n": 0, "err": ""})
                    }
                    Some("guard") => {
                        held = Some(cas.read_index_state());
                        json!({"ok": true, "val": "ok", "n": 0, "err": ""})
                    }
                    Some("unguard") => {
                        held = None;
                        json!({"ok": true, "val": "ok", "n": 0, "err": ""})
                    }
                    _ => exec_op(&cas, stats.as_deref(), &u, op, &qdir),
                };
                results.lock().unwrap()[t].push(r);
            }
            drop(held);
            drop(open_tx);
            verif::install(None);
            sched.done(t);
        }));
    }
    // generous: only a real block-in-lock ever waits this long (a step is a few syscalls on tmpfs)
    let timeout = Duration::from_millis(3000);
    sched.wait_parked(Duration::from_secs(5));
    let mut events = vec![json!({"ev": "init", "orph": orph_order, "obs": snapshot(&cas, &u, &root, &names)})];
    let mut choices: Vec<(Vec<usize>, usize)> = vec![];
    let mut stuck: Vec<usize> = vec![];
    let mut last: Option<usize> = None;
    let mut blocked = false;
    let mut reported = vec![0usize; n];
    let mut last_disk: Option<Value> = None;
    loop {
        let status = sched.status();
        if status.iter().all(|s| *s == Status::Done) {
            break;
        }
        let mask = verif::lock_mask(cas.as_arc());
        let mut enabled = vec![];
        for (t, s) in status.iter().enumerate() {
            if let Status::At(p) = s {
                let free = match lock_of(p) {
                    "I" => !mask.intents,
                    "Sw" => mask.state == 0,
                    "Sr" => mask.state != 2,
                    "W" => !mask.wal,
                    _ => true,
                };
                if free || !strict {
                    enabled.push(t);
                }
            }
        }
        if enabled.is_empty() {
            // every unfinished worker is parked before a lock that is held, or stuck inside one
            std::thread::sleep(Duration::from_millis(if stuck.is_empty() { 0 } else { 3000 }));
            let status2 = sched.status();
            if status2 == status && sched.all_running_asleep() {
                blocked = true;
                let st: Vec<String> = status.iter().map(|s| format!("{s:?}")).collect();
                events.push(json!({"ev": "blocked", "status": st, "mask": {"i": mask.intents, "s": mask.state, "w": mask.wal}}));
                break;
            }
            continue;
        }
        let step_no = choices.len();
        let chosen = if step_no < prefix.len() && enabled.contains(&prefix[step_no]) {
            prefix[step_no]
        } else if let Some(seed) = rnd.as_mut() {
            *seed = seed.wrapping_mul(6364136223846793005).wrapping_add(1442695040888963407);
            enabled[((*seed >> 33) as usize) % enabled.len()]
        } else if last.is_some_and(|l| enabled.contains(&l)) {
            last.unwrap()
        } else {
            enabled[0]
        };
        let at = match &status[chosen] {
            Status::At(p) => *p,
            _ => "",
        };
        choices.push((enabled.clone(), chosen));
        last = Some(chosen);
        let arrived = sched.step(chosen, timeout);
        if !arrived {
            stuck.push(chosen);
        }
        let st2 = sched.status();
        let to = match &st2[chosen] {
            Status::At(p) => p.to_string(),
            Status::Done => "done".to_string(),
            Status::Running => "stuck".to_string(),
        };
        // results of operations that returned during this step
        let mut rets = vec![];
        {
            let rs = results.lock().unwrap();
            for t in 0..n {
                while reported[t] < rs[t].len() {
                    rets.push(json!({"t": t + 1, "i": reported[t] + 1, "op": progs[t][reported[t]], "res": rs[t][reported[t]]}));
                    reported[t] += 1;
                }
            }
        }
        // the decoded directory is recorded when it differs from the one recorded last (most steps are lock
        // acquisitions and change nothing on disk); the value at the end of the run is kept for the `end` line
        let mut obs = snapshot(&cas, &u, &root, &names);
        let disk = obs["disk"].take();
        if last_disk.as_ref() != Some(&disk) {
            obs["disk"] = disk.clone();
            last_disk = Some(disk);
        } else {
            obs.as_object_mut().unwrap().remove("disk");
        }
        events.push(json!({"ev": "step", "t": chosen + 1, "at": at, "to": to, "rets": rets, "obs": obs}));
        if choices.len() > 400 {
            break;
        }
    }
    if blocked || !stuck.is_empty() {
        // let everything go so that the threads can be joined (or leak them if truly dead-locked)
        let mut g = sched.st.lock().unwrap();
        g.abort = true;
        sched.cv.notify_all();
        drop(g);
        std::thread::sleep(Duration::from_millis(200));
        for h in handles {
            if h.is_finished() {
                let _ = h.join();
            }
        }
    } else {
        for h in handles {
            let _ = h.join();
        }
    }
    drop(stats);
    if !blocked && stuck.is_empty() {
        // the log must tell the same story as the memory: close, reopen, compare
        let before = snapshot(&cas, &u, &root, &names);
        drop(cas);
        st.close();
        let res = st.open();
        let mut idx = vec![json!("-"); NK];
        let mut get = vec![json!("-"); NK];
        if let Some(c2) = st.cas.as_ref() {
            for (k, item) in c2.read_index_state().iter() {
                let a = u.abs_of_key(k);
                if a >= 1 {
                    idx[a - 1] = json!(u.name_of_hash(item.blob_hash.as_bytes()));
                }
            }
            for a in 1..=NK {
                get[a - 1] = match c2.get(&u.key(a)) {
                    Ok(Some(b)) => json!(u.name_of_bytes(&b)),
                    Ok(None) => json!("-"),
                    Err(e) => json!(format!("!{}", err_class(&e))),
                };
            }
        }
        events.push(json!({"ev": "final", "before": before, "res": res, "idx": idx, "get": get}));
        st.close();
    } else {
        st.close();
        drop(cas);
    }
    crate::shim::uninstall();
    RunResult { events, choices, blocked, last_disk: last_disk.unwrap_or(json!({})) }
}

fn preemptions(choices: &[(Vec<usize>, usize)], upto: usize, alt: usize) -> usize {
    let mut p = 0;
    let mut last: Option<usize> = None;
    for (i, (en, ch)) in choices.iter().enumerate().take(upto + 1) {
        let c = if i == upto { alt } else { *ch };
        if let Some(l) = last {
            if l != c && en.contains(&l) {
                p += 1;
            }
        }
        last = Some(c);
    }
    p
}

/// scenario: {id, cfg, init, plant, threads:[[op..]..], explore:{kind:"dfs"|"random"|"guided", bound, runs, schedules}}
pub fn run_conc_scenario<K: HKey>(sc: &Value, scratch: &Path, out: &mut Out) {
    let cfg = Cfg::from_json(&sc["cfg"]);
    let init: Vec<Value> = sc["init"].as_array().cloned().unwrap_or_default();
    let plant: Vec<Value> = sc["plant"].as_array().cloned().unwrap_or_default();
    let progs: Vec<Vec<Value>> =
        sc["threads"].as_array().unwrap().iter().map(|p| p.as_array().cloned().unwrap_or_default()).collect();
    let ex = &sc["explore"];
    let kind = ex["kind"].as_str().unwrap_or("dfs");
    let max_runs = ex["runs"].as_u64().unwrap_or(200) as usize;
    let pbound = ex["bound"].as_u64().unwrap_or(2) as usize;
    let mut emit = |sched_id: String, r: &RunResult, out: &mut Out| {
        out.emit(&json!({"ev": "reset", "sid": sc["id"], "sched": sched_id, "cfg": cfg.to_json(), "init": init, "plant": plant,
                         "threads": progs, "schedule": r.choices.iter().map(|c| c.1 + 1).collect::<Vec<_>>()}));
        for e in &r.events {
            out.emit(e);
        }
        out.emit(&json!({"ev": "end", "blocked": r.blocked, "disk": r.last_disk}));
    };
    match kind {
        "forced" => {
            // the schedule is followed even where the lock a thread is about to take is held: the thread
            // then really blocks (detected by time-out); used for the user-held read guard class
            for (i, s) in ex["schedules"].as_array().cloned().unwrap_or_default().iter().enumerate() {
                let prefix: Vec<usize> = s.as_array().unwrap().iter().map(|x| x.as_u64().unwrap() as usize - 1).collect();
                let r = run_schedule::<K>(&cfg, &init, &plant, &progs, &prefix, &mut None, scratch, false);
                emit(format!("f{i}"), &r, out);
            }
        }
        "guided" => {
            for (i, s) in ex["schedules"].as_array().cloned().unwrap_or_default().iter().enumerate() {
                let prefix: Vec<usize> = s.as_array().unwrap().iter().map(|x| x.as_u64().unwrap() as usize - 1).collect();
                let r = run_schedule::<K>(&cfg, &init, &plant, &progs, &prefix, &mut None, scratch, true);
                emit(format!("g{i}"), &r, out);
            }
        }
        "random" => {
            let seed0 = ex["seed"].as_u64().unwrap_or(1);
            for i in 0..max_runs {
                let mut rnd = Some(seed0.wrapping_mul(1000003).wrapping_add(i as u64 * 7919 + 1));
                let r = run_schedule::<K>(&cfg, &init, &plant, &progs, &[], &mut rnd, scratch, true);
                emit(format!("r{i}"), &r, out);
            }
        }
        _ => {
            // DFS over schedules, stateless, bounded number of pre-emptions
            let mut stack: Vec<Vec<usize>> = vec![vec![]];
            let mut runs = 0;
            while let Some(prefix) = stack.pop() {
                if runs >= max_runs {
                    break;
                }
                let r = run_schedule::<K>(&cfg, &init, &plant, &progs, &prefix, &mut None, scratch, true);
                emit(format!("d{runs}"), &r, out);
                runs += 1;
                for i in (prefix.len()..r.choices.len()).rev() {
                    let (en, ch) = &r.choices[i];
                    for a in en {
                        if a != ch && preemptions(&r.choices, i, *a) <= pbound {
                            let mut p: Vec<usize> = r.choices[..i].iter().map(|c| c.1).collect();
                            p.push(*a);
                            stack.push(p);
                        }
                    }
                }
            }
        }
    }
}

pub fn scratch_for(base: &Path, i: usize) -> PathBuf {
    base.join(format!("c{i}"))
}
