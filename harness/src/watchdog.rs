//! A call of the code under test that does not return is data, not a tool failure: the watchdog writes what was
//! running to `<trace>.hang` and ends the process with exit code 3 (the driver reports it with the scenario).

use std::sync::Mutex;
use std::sync::atomic::{AtomicU64, Ordering};
use std::time::{SystemTime, UNIX_EPOCH};

static DEADLINE_MS: AtomicU64 = AtomicU64::new(0);
static CURRENT: Mutex<String> = Mutex::new(String::new());
static SCENARIO: Mutex<String> = Mutex::new(String::new());
static HANG_PATH: Mutex<Option<String>> = Mutex::new(None);

fn now_ms() -> u64 {
    SystemTime::now().duration_since(UNIX_EPOCH).map_or(0, |d| d.as_millis() as u64)
}

pub fn start(hang_path: String) {
    *HANG_PATH.lock().unwrap() = Some(hang_path);
    std::thread::spawn(|| {
        loop {
            std::thread::sleep(std::time::Duration::from_millis(250));
            let d = DEADLINE_MS.load(Ordering::Relaxed);
            if d != 0 && now_ms() > d {
                let what = format!(
                    "{{\"scenario\":{},\"op\":{}}}",
                    serde_json::to_string(&*SCENARIO.lock().unwrap()).unwrap(),
                    serde_json::to_string(&*CURRENT.lock().unwrap()).unwrap()
                );
                if let Some(p) = HANG_PATH.lock().unwrap().as_ref() {
                    let _ = std::fs::write(p, what);
                }
                unsafe { libc::_exit(3) };
            }
        }
    });
}

pub fn scenario(id: &str) {
    *SCENARIO.lock().unwrap() = id.to_string();
}

/// arm for one call of the code under test
pub fn arm(what: &str, secs: u64) {
    *CURRENT.lock().unwrap() = what.to_string();
    DEADLINE_MS.store(now_ms() + secs * 1000, Ordering::Relaxed);
}

pub fn disarm() {
    DEADLINE_MS.store(0, Ordering::Relaxed);
}

/// armed for the lifetime of the value
pub struct Armed;
impl Armed {
    pub fn new(what: &str, secs: u64) -> Armed {
        arm(what, secs);
        Armed
    }
}
impl Drop for Armed {
    fn drop(&mut self) {
        disarm();
    }
}
