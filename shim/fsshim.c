/* LD_PRELOAD interposer for the cassadilia verification harness.
 *
 * For every *mutating* libc filesystem call whose path lies under the registered root, the
 * registered hook is invoked BEFORE the call is forwarded.  The hook returns 0 (proceed) or an
 * errno value (> 0): the call then returns -1 with that errno and has no side effect.
 * The hook is not invoked re-entrantly (calls made by the hook itself pass straight through).
 */
#define _GNU_SOURCE
#include <dlfcn.h>
#include <errno.h>
#include <fcntl.h>
#include <stdarg.h>
#include <stdio.h>
#include <stdlib.h>
#include <string.h>
#include <sys/stat.h>
#include <sys/types.h>
#include <sys/uio.h>
#include <unistd.h>
#include <pthread.h>

enum { K_OPEN = 1, K_WRITE = 2, K_FSYNC = 3, K_FDATASYNC = 4, K_RENAME = 5, K_UNLINK = 6,
       K_MKDIR = 7, K_RMDIR = 8, K_FTRUNCATE = 9, K_FLOCK = 10 };

typedef int (*hook_fn)(int kind, const char *p1, const char *p2, long a, long b);

static hook_fn g_hook = 0;
static char g_root[4096];
static size_t g_root_len = 0;
static __thread int in_hook = 0;

#define MAXFD 4096
static char *g_fdpath[MAXFD];
static pthread_mutex_t g_fd_mu = PTHREAD_MUTEX_INITIALIZER;

void fsshim_set_hook(hook_fn h) { g_hook = h; }
void fsshim_set_root(const char *root) {
    if (!root) { g_root_len = 0; g_root[0] = 0; return; }
    strncpy(g_root, root, sizeof(g_root) - 1);
    g_root_len = strlen(g_root);
}
int fsshim_present(void) { return 1; }

static int under_root(const char *p) {
    if (!g_root_len || !p) return 0;
    if (strncmp(p, g_root, g_root_len) != 0) return 0;
    return p[g_root_len] == '/' || p[g_root_len] == 0;
}

static void fd_set_path(int fd, const char *p) {
    if (fd < 0 || fd >= MAXFD) return;
    pthread_mutex_lock(&g_fd_mu);
    free(g_fdpath[fd]);
    g_fdpath[fd] = p ? strdup(p) : 0;
    pthread_mutex_unlock(&g_fd_mu);
}
static int fd_get_path(int fd, char *out, size_t n) {
    int ok = 0;
    if (fd < 0 || fd >= MAXFD) return 0;
    pthread_mutex_lock(&g_fd_mu);
    if (g_fdpath[fd]) { strncpy(out, g_fdpath[fd], n - 1); out[n - 1] = 0; ok = 1; }
    pthread_mutex_unlock(&g_fd_mu);
    return ok;
}

/* returns 0 to proceed, errno to fail */
static int call_hook(int kind, const char *p1, const char *p2, long a, long b) {
    if (!g_hook || in_hook) return 0;
    in_hook = 1;
    int r = g_hook(kind, p1, p2, a, b);
    in_hook = 0;
    return r;
}

#define REAL(name) static __typeof__(name) *real_##name = 0; \
    if (!real_##name) real_##name = dlsym(RTLD_NEXT, #name)

static int open_common(const char *path, int flags, mode_t mode, int is64, int dirfd, int use_at) {
    static int (*real_open)(const char *, int, ...) = 0;
    static int (*real_open64)(const char *, int, ...) = 0;
    static int (*real_openat)(int, const char *, int, ...) = 0;
    static int (*real_openat64)(int, const char *, int, ...) = 0;
    if (!real_open) real_open = dlsym(RTLD_NEXT, "open");
    if (!real_open64) real_open64 = dlsym(RTLD_NEXT, "open64");
    if (!real_openat) real_openat = dlsym(RTLD_NEXT, "openat");
    if (!real_openat64) real_openat64 = dlsym(RTLD_NEXT, "openat64");
    int mut = (flags & (O_CREAT | O_TRUNC)) || ((flags & O_ACCMODE) != O_RDONLY);
    int tracked = mut && !in_hook && (!use_at || dirfd == AT_FDCWD || path[0] == '/') && under_root(path);
    if (tracked && (flags & (O_CREAT | O_TRUNC))) {
        /* only an open that can change the directory or the file content is a boundary */
        int e = call_hook(K_OPEN, path, 0, flags, 0);
        if (e) { errno = e; return -1; }
    }
    int fd;
    if (use_at) fd = is64 ? real_openat64(dirfd, path, flags, mode) : real_openat(dirfd, path, flags, mode);
    else fd = is64 ? real_open64(path, flags, mode) : real_open(path, flags, mode);
    if (fd >= 0) { if (tracked) fd_set_path(fd, path); else if (fd < MAXFD && g_fdpath[fd]) fd_set_path(fd, 0); }
    return fd;
}

int open(const char *path, int flags, ...) {
    mode_t mode = 0; if (flags & (O_CREAT | O_TMPFILE)) { va_list ap; va_start(ap, flags); mode = va_arg(ap, mode_t); va_end(ap); }
    return open_common(path, flags, mode, 0, 0, 0);
}
int open64(const char *path, int flags, ...) {
    mode_t mode = 0; if (flags & (O_CREAT | O_TMPFILE)) { va_list ap; va_start(ap, flags); mode = va_arg(ap, mode_t); va_end(ap); }
    return open_common(path, flags, mode, 1, 0, 0);
}
int openat(int dirfd, const char *path, int flags, ...) {
    mode_t mode = 0; if (flags & (O_CREAT | O_TMPFILE)) { va_list ap; va_start(ap, flags); mode = va_arg(ap, mode_t); va_end(ap); }
    return open_common(path, flags, mode, 0, dirfd, 1);
}
int openat64(int dirfd, const char *path, int flags, ...) {
    mode_t mode = 0; if (flags & (O_CREAT | O_TMPFILE)) { va_list ap; va_start(ap, flags); mode = va_arg(ap, mode_t); va_end(ap); }
    return open_common(path, flags, mode, 1, dirfd, 1);
}

int close(int fd) {
    REAL(close);
    if (fd >= 0 && fd < MAXFD && g_fdpath[fd]) fd_set_path(fd, 0);
    return real_close(fd);
}

ssize_t write(int fd, const void *buf, size_t n) {
    REAL(write);
    char p[4096];
    if (!in_hook && g_hook && fd_get_path(fd, p, sizeof p)) {
        int e = call_hook(K_WRITE, p, 0, (long)n, fd);
        if (e > 0) { errno = e; return -1; }
        /* a negative answer asks for a SHORT write: the kernel may accept fewer bytes than offered (signals, quotas,
           pipes, nearly full devices); the caller has to continue with the rest */
        if (e < 0 && n > 1) n = n / 2;
    }
    return real_write(fd, buf, n);
}
ssize_t pwrite64(int fd, const void *buf, size_t n, off64_t off) {
    REAL(pwrite64);
    char p[4096];
    if (!in_hook && g_hook && fd_get_path(fd, p, sizeof p)) {
        int e = call_hook(K_WRITE, p, 0, (long)n, fd);
        if (e) { errno = e; return -1; }
    }
    return real_pwrite64(fd, buf, n, off);
}
ssize_t pwrite(int fd, const void *buf, size_t n, off_t off) {
    REAL(pwrite);
    char p[4096];
    if (!in_hook && g_hook && fd_get_path(fd, p, sizeof p)) {
        int e = call_hook(K_WRITE, p, 0, (long)n, fd);
        if (e) { errno = e; return -1; }
    }
    return real_pwrite(fd, buf, n, off);
}
ssize_t writev(int fd, const struct iovec *iov, int cnt) {
    REAL(writev);
    char p[4096];
    if (!in_hook && g_hook && fd_get_path(fd, p, sizeof p)) {
        long n = 0; for (int i = 0; i < cnt; i++) n += (long)iov[i].iov_len;
        int e = call_hook(K_WRITE, p, 0, n, fd);
        if (e) { errno = e; return -1; }
    }
    return real_writev(fd, iov, cnt);
}
int fsync(int fd) {
    REAL(fsync);
    char p[4096];
    if (!in_hook && g_hook && fd_get_path(fd, p, sizeof p)) {
        int e = call_hook(K_FSYNC, p, 0, 0, fd);
        if (e) { errno = e; return -1; }
    }
    return real_fsync(fd);
}
int fdatasync(int fd) {
    REAL(fdatasync);
    char p[4096];
    if (!in_hook && g_hook && fd_get_path(fd, p, sizeof p)) {
        int e = call_hook(K_FDATASYNC, p, 0, 0, fd);
        if (e) { errno = e; return -1; }
    }
    return real_fdatasync(fd);
}
int ftruncate64(int fd, off64_t len) {
    REAL(ftruncate64);
    char p[4096];
    if (!in_hook && g_hook && fd_get_path(fd, p, sizeof p)) {
        int e = call_hook(K_FTRUNCATE, p, 0, (long)len, fd);
        if (e) { errno = e; return -1; }
    }
    return real_ftruncate64(fd, len);
}
int ftruncate(int fd, off_t len) {
    REAL(ftruncate);
    char p[4096];
    if (!in_hook && g_hook && fd_get_path(fd, p, sizeof p)) {
        int e = call_hook(K_FTRUNCATE, p, 0, (long)len, fd);
        if (e) { errno = e; return -1; }
    }
    return real_ftruncate(fd, len);
}
int flock(int fd, int op) {
    REAL(flock);
    char p[4096];
    if (!in_hook && g_hook && fd_get_path(fd, p, sizeof p)) {
        int e = call_hook(K_FLOCK, p, 0, op, fd);
        if (e) { errno = e; return -1; }
    }
    return real_flock(fd, op);
}
int rename(const char *a, const char *b) {
    REAL(rename);
    if (!in_hook && (under_root(a) || under_root(b))) {
        int e = call_hook(K_RENAME, a, b, 0, 0);
        if (e) { errno = e; return -1; }
    }
    return real_rename(a, b);
}
int renameat(int fa, const char *a, int fb, const char *b) {
    REAL(renameat);
    if (!in_hook && (under_root(a) || under_root(b))) {
        int e = call_hook(K_RENAME, a, b, 0, 0);
        if (e) { errno = e; return -1; }
    }
    return real_renameat(fa, a, fb, b);
}
int renameat2(int fa, const char *a, int fb, const char *b, unsigned int fl) {
    REAL(renameat2);
    if (!in_hook && (under_root(a) || under_root(b))) {
        int e = call_hook(K_RENAME, a, b, 0, 0);
        if (e) { errno = e; return -1; }
    }
    return real_renameat2(fa, a, fb, b, fl);
}
int unlink(const char *a) {
    REAL(unlink);
    if (!in_hook && under_root(a)) {
        int e = call_hook(K_UNLINK, a, 0, 0, 0);
        if (e) { errno = e; return -1; }
    }
    return real_unlink(a);
}
int unlinkat(int fd, const char *a, int fl) {
    REAL(unlinkat);
    if (!in_hook && under_root(a)) {
        int e = call_hook((fl & AT_REMOVEDIR) ? K_RMDIR : K_UNLINK, a, 0, 0, 0);
        if (e) { errno = e; return -1; }
    }
    return real_unlinkat(fd, a, fl);
}
int rmdir(const char *a) {
    REAL(rmdir);
    if (!in_hook && under_root(a)) {
        int e = call_hook(K_RMDIR, a, 0, 0, 0);
        if (e) { errno = e; return -1; }
    }
    return real_rmdir(a);
}
int mkdir(const char *a, mode_t m) {
    REAL(mkdir);
    if (!in_hook && under_root(a)) {
        struct stat st;
        /* mkdir of an existing directory changes nothing: not a boundary */
        if (stat(a, &st) != 0) {
            int e = call_hook(K_MKDIR, a, 0, 0, 0);
            if (e) { errno = e; return -1; }
        }
    }
    return real_mkdir(a, m);
}
int mkdirat(int fd, const char *a, mode_t m) {
    REAL(mkdirat);
    if (!in_hook && under_root(a)) {
        struct stat st;
        if (stat(a, &st) != 0) {
            int e = call_hook(K_MKDIR, a, 0, 0, 0);
            if (e) { errno = e; return -1; }
        }
    }
    return real_mkdirat(fd, a, m);
}
