#!/usr/bin/env python3
"""Round 3 of the seeded changes: copies the confirmed ones from /tmp/mut3/out/<id>/<A|B|C> into
/verif/seeded/<id>-r3<a|b|c>/ (patch.diff, demo, meta.json).  NOTES3 holds the detection history of the ones
that were missed at first; everything else was caught as delivered."""
import json
import os
import shutil
import sys

NOTES3 = {}
notes_file = os.path.join(os.path.dirname(os.path.abspath(__file__)), "round3_notes.json")
if os.path.exists(notes_file):
    NOTES3 = json.load(open(notes_file))

BASE = "/tmp/mut3/out"
results = {}
if os.path.exists("/tmp/mut3/try_results.txt"):
    for l in open("/tmp/mut3/try_results.txt"):
        p = l.split(" ", 1)
        if len(p) == 2 and "/" in p[0]:
            try:
                results[p[0]] = json.loads(p[1])
            except Exception:
                results[p[0]] = None

for pid in sorted(os.listdir(BASE)):
    for v in "ABC":
        src = f"{BASE}/{pid}/{v}"
        if not os.path.exists(f"{src}/patch.diff"):
            continue
        try:
            c = json.load(open(f"{src}/confirm.json"))
        except Exception:
            print("confirm unreadable", pid, v)
            continue
        if not (c.get("demo_fails_with_change") and c.get("demo_passes_without") and c.get("baseline_70_pass")):
            print("NOT CONFIRMED", pid, v, {k: c.get(k) for k in ("demo_fails_with_change", "demo_passes_without", "baseline_70_pass", "error")})
            continue
        key = f"{pid}/{v}"
        caught = (results.get(key) or {}).get(pid)
        if not caught:
            print("NOT CAUGHT (not stored)", key, results.get(key))
            continue
        dst = f"/verif/seeded/{pid}-r3{v.lower()}"
        os.makedirs(dst, exist_ok=True)
        shutil.copy(f"{src}/patch.diff", dst)
        demo = [f for f in os.listdir(src) if f.startswith("demo")][0]
        shutil.copy(f"{src}/{demo}", dst)
        meta = json.load(open(f"{src}/meta.json"))
        meta["property"] = pid
        meta["confirmed_by_me"] = {
            "worktree": "/tmp/wt3 (scratch git worktree of /repo at the repaired HEAD, removed afterwards)",
            "demo_fails_with_change": True, "demo_passes_without_change": True, "baseline_70_tests_pass_with_change": True,
            "commands": [f"cargo test --offline --test {demo[:-3]}   (with the change: FAILED)",
                         f"git apply -R patch.diff; cargo test --offline --test {demo[:-3]}   (ok); git apply patch.diff",
                         "cargo test --offline --lib   (70 passed; 2 failed = the two baseline always-fail tests)"]}
        meta["checked_with"] = f"git -C /repo apply patch.diff; ./check {pid} --tier quick  -> exit 1 with VIOLATION; git -C /repo checkout -- ."
        meta["detection"] = NOTES3.get(key, "caught as delivered")
        json.dump(meta, open(f"{dst}/meta.json", "w"), indent=1)
        print("stored", dst)
