#!/usr/bin/env python3
"""Writes the detection history into seeded/<id>-r<N><v>/meta.json (tooling, not a check).
   apply_notes.py r3|r4   - results from work/round3_results.txt (ptry runs), notes from lib/round3_notes.json"""
import json
import os
import sys

ROOT = os.path.dirname(os.path.dirname(os.path.abspath(__file__)))
rnd = sys.argv[1]
notes = json.load(open(os.path.join(ROOT, "lib", "round3_notes.json"))).get(rnd, {})
runs = {}
for l in open(os.path.join(ROOT, "work", "round3_results.txt")):
    r = json.loads(l)
    if r.get("rnd", "r3") != rnd:
        continue
    runs.setdefault((r["id"], r["v"]), []).append(bool(r["caught"].get(r["id"])))
for d in sorted(os.listdir(os.path.join(ROOT, "seeded"))):
    if f"-{rnd}" not in d:
        continue
    pid, v = d.split(f"-{rnd}")
    key = (pid, v.upper())
    mp = os.path.join(ROOT, "seeded", d, "meta.json")
    m = json.load(open(mp))
    rs = runs.get(key, [])
    if not rs:
        print("no run recorded for", d)
        continue
    note = notes.get(f"{pid}/{v.upper()}", "")
    if note.startswith("OTHER:"):
        # not reported by the check of its own property, for a reason stated in the note (another property's check reports it)
        m["detection"] = note[len("OTHER:"):].strip()
    elif not rs[-1]:
        m["detection"] = "NOT CAUGHT"
        print("NOT CAUGHT", d)
    else:
        m["detection"] = notes.get(f"{pid}/{v.upper()}", "caught as delivered" if all(rs) else "MISSED at first - caught after strengthening")
    m["checked_with"] = (f"python3 lib/seed.py ptry seeded/{d} <name> {pid}: a scratch git worktree of /repo with patch.diff applied and a scratch copy "
                         f"of /verif whose harness depends on it (equivalent to `git -C /repo apply patch.diff; ./check {pid} --tier quick; git -C /repo "
                         f"checkout -- .`, without touching /repo while other runs use it) -> exit 1 with VIOLATION")
    json.dump(m, open(mp, "w"), indent=1)
print("done", rnd)
