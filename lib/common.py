"""Shared plumbing for the /verif checks: building, running TLC, running the harness, evidence."""
import atexit
import json
import os
import re
import shutil
import subprocess
import sys
import tempfile
import time
from concurrent.futures import ThreadPoolExecutor

ROOT = os.path.dirname(os.path.dirname(os.path.abspath(__file__)))
SPEC = os.path.join(ROOT, "spec")
HARNESS = os.path.join(ROOT, "harness")
SHIM_SRC = os.path.join(ROOT, "shim", "fsshim.c")
SHIM_SO = os.path.join(ROOT, "shim", "libfsshim.so")
BIN = os.path.join(HARNESS, "target", "debug", "casharn")
NCPU = os.cpu_count() or 4

_workdir = None


class ToolError(Exception):
    pass


def workdir():
    global _workdir
    if _workdir is None:
        base = "/dev/shm" if os.path.isdir("/dev/shm") and os.access("/dev/shm", os.W_OK) else tempfile.gettempdir()
        _workdir = tempfile.mkdtemp(prefix="casverif-", dir=base)
        atexit.register(lambda: shutil.rmtree(_workdir, ignore_errors=True))
    return _workdir


def seed():
    try:
        return int(os.environ.get("VERIF_SEED", "1"))
    except ValueError:
        return 1


def log(*a):
    print(*a, file=sys.stderr, flush=True)


def ensure_built():
    """Build the shim and the harness against the CURRENT /repo working tree (feature verif)."""
    t0 = time.time()
    if (not os.path.exists(SHIM_SO)) or os.path.getmtime(SHIM_SO) < os.path.getmtime(SHIM_SRC):
        r = subprocess.run(["gcc", "-O1", "-shared", "-fPIC", "-o", SHIM_SO, SHIM_SRC, "-ldl", "-lpthread"],
                           capture_output=True, text=True)
        if r.returncode != 0:
            raise ToolError("shim build failed:\n" + r.stderr)
    lock = os.path.join(HARNESS, "Cargo.lock")
    if not os.path.exists(lock):
        shutil.copy("/repo/Cargo.lock", lock)
    env = dict(os.environ, CARGO_NET_OFFLINE="true")
    r = subprocess.run(["cargo", "build", "--offline", "--quiet"], cwd=HARNESS, env=env, capture_output=True, text=True)
    if r.returncode != 0:
        raise ToolError("harness build failed (does /repo still compile with --features verif?):\n" + r.stderr[-4000:])
    log(f"[build] ok in {time.time() - t0:.1f}s")


TLC_JAR_CP = "/opt/veriftools/tla/tla2tools.jar:/opt/veriftools/tla/CommunityModules-deps.jar"


def tlc(module, cfg_text, workers=4, args=(), env=None, timeout=1800, heap="4g", deque=False, name=None):
    """Run TLC on spec/<module>.tla with the given cfg text. Returns stdout."""
    wd = workdir()
    name = name or f"{module}-{int(time.time() * 1000) % 10_000_000}"
    cfg = os.path.join(wd, name + ".cfg")
    with open(cfg, "w") as f:
        f.write(cfg_text)
    meta = os.path.join(wd, "meta-" + name)
    jopts = ["-XX:+UseParallelGC", f"-Xmx{heap}", "-Xss1g"]
    if deque:
        jopts.append("-Dtlc2.tool.queue.IStateQueue=StateDeque")
    cmd = ["java", *jopts, "-cp", TLC_JAR_CP, "tlc2.TLC", "-workers", str(workers), "-metadir", meta, "-cleanup",
           "-noGenerateSpecTE", "-config", cfg, *args, os.path.join(SPEC, module + ".tla")]
    e = dict(os.environ)
    e.pop("JAVA_TOOL_OPTIONS", None)
    if env:
        e.update(env)
    try:
        r = subprocess.run(cmd, cwd=wd, env=e, capture_output=True, text=True, timeout=timeout)
    except subprocess.TimeoutExpired as ex:
        raise ToolError(f"TLC timeout after {timeout}s on {module}") from ex
    finally:
        shutil.rmtree(meta, ignore_errors=True)
    return r.stdout + "\n" + r.stderr


def parse_mc(out):
    """Parse a model-checking run."""
    res = {"states": 0, "distinct": 0, "violated": [], "error": None, "depth": 0, "finished": False}
    m = re.search(r"(\d+) states generated, (\d+) distinct states found", out)
    if m:
        res["states"] = int(m.group(1))
        res["distinct"] = int(m.group(2))
    m = re.search(r"depth of the complete state graph search is (\d+)", out)
    if m:
        res["depth"] = int(m.group(1))
    res["violated"] = re.findall(r"Invariant (\S+) is violated", out)
    if re.search(r"Temporal properties were violated|Deadlock reached", out):
        res["violated"].append("temporal-or-deadlock")
    res["finished"] = "Model checking completed" in out or "Finished in" in out
    errs = [l for l in out.split("\n") if l.startswith("Error:") and "is violated" not in l and "behavior up to" not in l]
    if errs and not res["violated"]:
        res["error"] = "\n".join(errs[:5])
    return res


def cfg_text(constants, spec="Spec", invariants=(), extra=()):
    lines = ["CONSTANTS"]
    for k, v in constants.items():
        if isinstance(v, tuple) and v[0] == "<-":
            lines.append(f"  {k} <- {v[1]}")
        else:
            lines.append(f"  {k} = {v}")
    lines.append(f"SPECIFICATION {spec}")
    if invariants:
        lines.append("INVARIANTS " + " ".join(invariants))
    lines.append("CHECK_DEADLOCK FALSE")
    lines.extend(extra)
    return "\n".join(lines) + "\n"


def gen_scenarios(constants, view, simulate=None, timeout=600):
    """Run GenSeq; returns a list of op lists."""
    c = dict(constants)
    cfg = cfg_text(c, extra=[f"VIEW {view}"])
    args = []
    if simulate:
        args = ["-simulate", f"num={simulate[0]}", "-depth", str(simulate[1]), "-seed", str(seed())]
    out = tlc("GenSeq", cfg, workers=1, args=args, timeout=timeout, name="gen")
    scen = []
    for line in out.split("\n"):
        if line.startswith('"SCEN@'):
            body = json.loads(line)  # the printed value is a TLA+ string = a JSON string literal
            scen.append(json.loads(body[len("SCEN@"):]))
    if not scen and "rror" in out:
        raise ToolError("generator failed:\n" + out[-3000:])
    return scen


def norm_ops(ops):
    """TLC prints tuples as JSON arrays already; nothing to do but keep the function for symmetry."""
    return ops


def run_harness(scenarios, tag, shards=None, need_shim=True, timeout=3000):
    """Run scenarios on the real code. Returns trace file paths (one per shard)."""
    wd = workdir()
    shards = shards or min(12, max(1, len(scenarios)))
    inp = os.path.join(wd, f"scen-{tag}.jsonl")
    with open(inp, "w") as f:
        for s in scenarios:
            f.write(json.dumps(s) + "\n")
    env = dict(os.environ)
    # always preloaded: boundaries / faults where a scenario asks for them, and the watch for in-place writes under cas/
    env["LD_PRELOAD"] = SHIM_SO
    procs = []
    outs = []
    for i in range(shards):
        outp = os.path.join(wd, f"trace-{tag}-{i}.ndjson")
        outs.append(outp)
        cmd = [BIN, "seq", "--in", inp, "--out", outp, "--scratch", os.path.join(wd, f"scr-{tag}-{i}"), "--shard", f"{i}/{shards}"]
        procs.append(subprocess.Popen(cmd, env=env, stdout=subprocess.PIPE, stderr=subprocess.PIPE, text=True))
    t0 = time.time()
    hangs = []
    for p in procs:
        try:
            so, se = p.communicate(timeout=max(1, timeout - (time.time() - t0)))
        except subprocess.TimeoutExpired as ex:
            for q in procs:
                q.kill()
            raise ToolError("harness timeout") from ex
        if p.returncode == 3 and os.path.exists(outs[procs.index(p)] + ".hang"):
            # the watchdog of the harness: a call of the code under test did not return
            hangs.append(json.load(open(outs[procs.index(p)] + ".hang")))
            continue
        if p.returncode != 0:
            raise ToolError(f"harness exit {p.returncode}:\n{se[-3000:]}")
    if hangs:
        raise HangFound(hangs, outs)
    return outs


class HangFound(Exception):
    def __init__(self, hangs, traces):
        super().__init__("hang")
        self.hangs = hangs
        self.traces = traces


def validate_traces(paths, module="TraceSeq", parallel=8, timeout=3000, cfg=None):
    """Trace validation by TLC. Returns (fails, stats): fails = list of dict(trace, line, sid, tags)."""
    cfg = cfg or "CONSTANTS\n  NK = 4\n  SplitBigRecords = FALSE\nSPECIFICATION Spec\nPOSTCONDITION AllConsumed\nCHECK_DEADLOCK FALSE\n"

    def one(p):
        if os.path.getsize(p) == 0:
            return p, "", 0
        out = tlc(module, cfg, workers=1, env={"TRACE": p}, timeout=timeout, heap="3g", deque=True,
                  name="tv-" + os.path.basename(p).replace(".ndjson", ""))
        return p, out, 1

    fails = []
    total_lines = 0
    with ThreadPoolExecutor(max_workers=parallel) as ex:
        for p, out, ran in ex.map(one, paths):
            if not ran:
                continue
            ok = "Model checking completed. No error has been found." in out
            for line in out.split("\n"):
                if line.startswith('"FAIL@'):
                    _, l, sid, tags = json.loads(line).split("@", 3)
                    fails.append({"trace": p, "line": int(l), "sid": sid.strip('"'), "tags": [t for t in tags.split(";") if t]})
                elif line.startswith('"UNCONSUMED@'):
                    raise ToolError(f"trace {p} not fully consumed: {line}")
            if not ok:
                raise ToolError(f"trace validation did not complete on {p}:\n" + "\n".join(
                    l for l in out.split("\n") if not l.startswith(("Parsing", "Semantic", "Linting")))[-3000:])
            m = re.search(r"(\d+) states generated, (\d+) distinct states found, 0 states left", out)
            if m:
                total_lines += int(m.group(2)) - 1
    return fails, {"lines": total_lines}


def trace_line(path, lineno):
    with open(path) as f:
        for i, l in enumerate(f, 1):
            if i == lineno:
                return json.loads(l)
    return None


def write_evidence(prop, tier, level, coverage, wall, violations, assumptions):
    if "--replay" in sys.argv:
        return  # a replay of one scenario is not a run of the check: the evidence of the last real run stays
    os.makedirs(os.path.join(ROOT, "evidence"), exist_ok=True)
    ev = {"property_id": prop, "tier": tier, "seed": seed(), "level": level, "coverage": coverage,
          "assumptions": assumptions, "wall_s": round(wall, 2), "violations": violations}
    with open(os.path.join(ROOT, "evidence", prop + ".json"), "w") as f:
        json.dump(ev, f, indent=1)


def load_known():
    p = os.path.join(ROOT, "known_findings.json")
    if not os.path.exists(p):
        return []
    return json.load(open(p))


def save_replay(prop, scenario):
    d = os.path.join(ROOT, "replays")
    os.makedirs(d, exist_ok=True)
    body = json.dumps(scenario, sort_keys=True)
    import hashlib
    hid = hashlib.sha1(body.encode()).hexdigest()[:10]
    p = os.path.join(d, f"{prop}-{hid}.json")
    with open(p, "w") as f:
        f.write(body + "\n")
    return p
