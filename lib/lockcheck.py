"""C11: CasLock model checked by TLC; its behaviours replayed with real processes; TraceLock validates."""
import json
import os
import random
import subprocess
import time

import common
from common import ToolError, cfg_text, ensure_built, log, parse_mc, save_replay, seed, tlc, trace_line, write_evidence, workdir


def run_lock_check(tier, replay=None):
    prop = "C11"
    t0 = time.time()
    ensure_built()
    q = tier == "quick"
    consts = {"NP": 2, "NH": 3, "MaxActs": 5 if q else 7}
    out = tlc("MCLock", cfg_text(consts, invariants=["Inv_C11_OneOwner", "Inv_C11_Loser", "Emit"], extra=["VIEW View"]), workers=1,
              timeout=2400, heap="6g", name="mcl")
    mc = parse_mc(out)
    if mc["error"] or not mc["finished"]:
        raise ToolError("MCLock failed: " + str(mc["error"]) + out[-2000:])
    scen = []
    if replay:
        scen = [json.load(open(replay))]
    else:
        acts = [json.loads(json.loads(l)[len("LSCEN@"):]) for l in out.split("\n") if l.startswith('"LSCEN@')]
        rnd = random.Random(seed())
        rnd.shuffle(acts)
        if q:
            acts = acts[:250]
        for i, a in enumerate(acts):
            scen.append({"id": f"C11-{i}", "np": consts["NP"], "nh": consts["NH"], "actions": a, "races": 0})
        scen.append({"id": "C11-race", "np": 4, "nh": 1, "actions": [], "races": 40 if q else 1000})
        # the owner keeps only an OrphanStats / only a clone alive; exit by kill while a clone is held
        scen.append({"id": "C11-stats", "np": 2, "nh": 3, "races": 0, "actions": [
            {"a": "openstats", "h": 1, "p": 1}, {"a": "open", "h": 2, "p": 2}, {"a": "drop", "h": 1, "p": 1}, {"a": "open", "h": 2, "p": 2},
            {"a": "clone", "h": 2, "p": 2}, {"a": "dropcas", "h": 2, "p": 2}, {"a": "open", "h": 3, "p": 1}, {"a": "put", "h": 2, "p": 2},
            {"a": "kill", "h": 0, "p": 2}, {"a": "open", "h": 3, "p": 1}, {"a": "open", "h": 1, "p": 1}]})
        # opens with settings the store rejects: AlreadyOpened (nothing touched) while the directory is owned - by another
        # process, by the same process, by a clone only -, the settings error once it is free; then a good open succeeds
        scen.append({"id": "C11-bad", "np": 2, "nh": 3, "races": 0, "actions": [
            {"a": "open", "h": 1, "p": 1}, {"a": "put", "h": 1, "p": 1}, {"a": "openbad", "h": 2, "p": 2}, {"a": "openbad", "h": 3, "p": 1},
            {"a": "clone", "h": 1, "p": 1}, {"a": "dropcas", "h": 1, "p": 1}, {"a": "openbad", "h": 2, "p": 2}, {"a": "drop", "h": 1, "p": 1},
            {"a": "openbad", "h": 2, "p": 2}, {"a": "open", "h": 2, "p": 2}, {"a": "openbad", "h": 3, "p": 1}, {"a": "kill", "h": 0, "p": 2},
            {"a": "openbad", "h": 3, "p": 1}, {"a": "open", "h": 3, "p": 1}]})
        # the owner's own orphan clean-up must not give the directory away (whatever it unlinks), and the directory is owned
        # under every name it can be reached by: a symbolic link, a spelling with "." components
        scen.append({"id": "C11-cleanup-alias", "np": 2, "nh": 3, "races": 0, "actions": [
            {"a": "open", "h": 1, "p": 1}, {"a": "put", "h": 1, "p": 1}, {"a": "cleanup", "h": 1, "p": 1}, {"a": "open", "h": 2, "p": 2},
            {"a": "open", "h": 3, "p": 1}, {"a": "openalias", "h": 2, "p": 2}, {"a": "openalias", "h": 3, "p": 1}, {"a": "dropcas", "h": 1, "p": 1},
            {"a": "cleanup", "h": 1, "p": 1}, {"a": "openalias", "h": 3, "p": 1}, {"a": "open", "h": 2, "p": 2}, {"a": "drop", "h": 1, "p": 1},
            {"a": "openalias", "h": 2, "p": 2}, {"a": "open", "h": 3, "p": 1}, {"a": "openalias", "h": 3, "p": 1}, {"a": "cleanup", "h": 2, "p": 2},
            {"a": "kill", "h": 0, "p": 2}, {"a": "openalias", "h": 3, "p": 1}, {"a": "open", "h": 1, "p": 1}]})
        # a grandchild spawned while the handle was open must not keep the lock; Async mode releases the lock on drop too
        scen.append({"id": "C11-spawn", "np": 2, "nh": 3, "races": 0, "actions": [
            {"a": "open", "h": 1, "p": 1}, {"a": "spawn", "h": 1, "p": 1}, {"a": "open", "h": 2, "p": 2}, {"a": "drop", "h": 1, "p": 1},
            {"a": "open", "h": 2, "p": 2}, {"a": "spawn", "h": 2, "p": 2}, {"a": "kill", "h": 0, "p": 2}, {"a": "open", "h": 3, "p": 1}]})
        for rep in range(3 if q else 20):
            scen.append({"id": f"C11-async{rep}", "np": 2, "nh": 3, "races": 0, "actions": [
                {"a": "openasync", "h": 1, "p": 1}, {"a": "put", "h": 1, "p": 1}, {"a": "cycle", "h": 1, "p": 1}, {"a": "put", "h": 1, "p": 1}, {"a": "drop", "h": 1, "p": 1},
                {"a": "openasync", "h": 2, "p": 2}, {"a": "open", "h": 3, "p": 1}, {"a": "put", "h": 2, "p": 2}, {"a": "kill", "h": 0, "p": 2},
                {"a": "open", "h": 3, "p": 1}, {"a": "drop", "h": 3, "p": 1}, {"a": "openasync", "h": 1, "p": 1}]})
    log(f"[{prop}] MCLock: {mc['distinct']} distinct states; {len(scen)} scenarios with real processes")
    wd = workdir()
    nsh = 8
    procs = []
    traces = []
    t1 = time.time()
    for i in range(nsh):
        inp = os.path.join(wd, f"lock-{i}.jsonl")
        with open(inp, "w") as f:
            for j, s in enumerate(scen):
                if j % nsh == i:
                    f.write(json.dumps(s) + "\n")
        outp = os.path.join(wd, f"locktrace-{i}.ndjson")
        traces.append(outp)
        procs.append(subprocess.Popen([common.BIN, "lock", "--in", inp, "--out", outp, "--scratch", os.path.join(wd, f"lscr{i}"),
                                       "--shim", common.SHIM_SO], stdout=subprocess.PIPE, stderr=subprocess.PIPE, text=True))
    for p in procs:
        so, se = p.communicate(timeout=3000)
        if p.returncode != 0:
            raise ToolError("lock harness failed: " + se[-2000:])
    t2 = time.time()
    fails, st = common.validate_traces(traces, module="TraceLock",
                                       cfg=cfg_text({"NP": 4, "NH": 3}, extra=["POSTCONDITION AllConsumed"]))
    t3 = time.time()
    log(f"[{prop}] harness {t2 - t1:.1f}s, validation {t3 - t2:.1f}s, {st['lines']} lines, {len(fails)} lines with failed checks")
    by_id = {s["id"]: s for s in scen}
    nviol = 0
    seen = set()
    for f in fails:
        sid = f["sid"].strip('"')
        if sid in seen:
            continue
        seen.add(sid)
        rp = save_replay(prop, by_id.get(sid, {"id": sid}))
        print(f"VIOLATION property={prop} replay={rp}")
        log(f"[{prop}]   tags={f['tags']} line={json.dumps(trace_line(f['trace'], f['line']))}")
        nviol += 1
        if nviol >= 5:
            break
    for t in mc["violated"]:
        log(f"[{prop}] NOTE model-level invariant {t} violated")
    cov = {"states": max(1, mc["distinct"]), "transitions": max(1, mc["states"]), "traces_validated_against_impl": len(scen) - len(seen),
           "samples": [s["actions"] for s in scen[:3]], "scenarios": len(scen), "trace_lines_checked": st["lines"],
           "model_constants": consts, "exhaustive": False, "harness_s": round(t2 - t1, 1), "validation_s": round(t3 - t2, 1)}
    write_evidence(prop, tier, "model_checking", cov, time.time() - t0, nviol,
                   ["flock(2) semantics of the kernel are trusted", "a losing open is observed through the LD_PRELOAD interposer (mutating calls other than mkdir, open of LOCK, flock) and a digest of the directory"])
    return 1 if nviol else 0
