#!/usr/bin/env python3
"""Helper for seeded changes (not a check).
  seed.py confirm <worktree> <demo-test-name> <outdir>   confirm demo fails with / passes without the change, baseline 70 pass
  seed.py try <seeded-dir> <prop> [<prop>...]            apply patch.diff to /repo, run ./check <prop> --tier quick, undo"""
import json
import os
import subprocess
import sys


def sh(cmd, cwd=None, timeout=3000):
    r = subprocess.run(cmd, shell=True, cwd=cwd, capture_output=True, text=True, timeout=timeout)
    return r.returncode, r.stdout + r.stderr


def confirm(wt, demo, outdir):
    feat = " --features verif" if "verif::" in open(os.path.join(outdir, [f for f in os.listdir(outdir) if f.startswith("demo")][0])).read() else ""
    rc1, o1 = sh(f"cargo test --offline{feat} --test {demo} 2>&1 | tail -5", cwd=wt)
    with_change_fails = "test result: FAILED" in o1 or "panicked" in o1
    patch = os.path.join(outdir, "patch.diff")     # never git stash: the stash is shared between worktrees
    rcr, orr = sh(f"git apply -R {patch}", cwd=wt)
    assert rcr == 0, orr
    rc2, o2 = sh(f"cargo test --offline{feat} --test {demo} 2>&1 | tail -5", cwd=wt)
    without_passes = "test result: ok" in o2
    sh(f"git apply {patch}", cwd=wt)
    rc3, o3 = sh("cargo test --offline --lib 2>&1 | grep -E '^test result'", cwd=wt)
    base_ok = "70 passed; 2 failed" in o3
    print(json.dumps({"demo_fails_with_change": with_change_fails, "demo_passes_without": without_passes, "baseline_70_pass": base_ok,
                      "with": o1[-300:], "without": o2[-200:], "baseline": o3.strip()}, indent=1))


def try_(sdir, props):
    patch = os.path.join(sdir, "patch.diff")
    rc, o = sh(f"git -C /repo apply {patch}")
    if rc != 0:
        print("apply failed", o)
        return
    res = {}
    try:
        for p in props:
            rc, o = sh(f"./check {p} --tier quick 2>&1 | tail -8", cwd="/verif")
            viol = "VIOLATION" in o
            res[p] = {"caught": viol, "tail": o[-900:]}
            print(f"== {p}: {'CAUGHT' if viol else 'missed'}\n{o[-900:]}")
    finally:
        sh("git -C /repo checkout -- .")
    print(json.dumps({p: r["caught"] for p, r in res.items()}))


if __name__ == "__main__":
    if sys.argv[1] == "confirm":
        confirm(sys.argv[2], sys.argv[3], sys.argv[4])
    else:
        try_(sys.argv[2], sys.argv[3:])
