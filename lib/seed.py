#!/usr/bin/env python3
"""Helper for seeded changes (not a check).
  seed.py confirm <worktree> <demo-test-name> <outdir>   confirm demo fails with / passes without the change, baseline 70 pass
  seed.py try <seeded-dir> <prop> [<prop>...]            apply patch.diff to /repo, run ./check <prop> --tier quick, undo
  seed.py ptry <seeded-dir> <name> <prop> [<prop>...]    the same without touching /repo: a scratch worktree of /repo with the
                                                         patch applied and a scratch copy of /verif whose harness depends on it
                                                         (under /tmp/pv/<name>, removed afterwards); for exploring several changes
                                                         at once - the recorded confirmation of a kept change is always `try`"""
import json
import os
import subprocess
import sys


def sh(cmd, cwd=None, timeout=3000):
    r = subprocess.run(cmd, shell=True, cwd=cwd, capture_output=True, text=True, timeout=timeout)
    return r.returncode, r.stdout + r.stderr


def confirm(wt, demo, outdir):
    feat = " --features verif" if "verif::" in open(os.path.join(outdir, [f for f in os.listdir(outdir) if f.startswith("demo")][0])).read() else ""
    rc1, o1 = sh(f"cargo test --offline{feat} --test {demo} 2>&1 | tail -5", cwd=wt)
    with_change_fails = "test result: FAILED" in o1 or "panicked" in o1
    patch = os.path.join(outdir, "patch.diff")     # never git stash: the stash is shared between worktrees
    rcr, orr = sh(f"git apply -R {patch}", cwd=wt)
    assert rcr == 0, orr
    rc2, o2 = sh(f"cargo test --offline{feat} --test {demo} 2>&1 | tail -5", cwd=wt)
    without_passes = "test result: ok" in o2
    sh(f"git apply {patch}", cwd=wt)
    rc3, o3 = sh("cargo test --offline --lib 2>&1 | grep -E '^test result'", cwd=wt)
    base_ok = "70 passed; 2 failed" in o3
    print(json.dumps({"demo_fails_with_change": with_change_fails, "demo_passes_without": without_passes, "baseline_70_pass": base_ok,
                      "with": o1[-300:], "without": o2[-200:], "baseline": o3.strip()}, indent=1))


def try_(sdir, props):
    patch = os.path.join(sdir, "patch.diff")
    rc, o = sh(f"git -C /repo apply {patch}")
    if rc != 0:
        print("apply failed", o)
        return
    res = {}
    try:
        for p in props:
            rc, o = sh(f"./check {p} --tier quick 2>&1 | tail -8", cwd="/verif")
            viol = "VIOLATION" in o
            res[p] = {"caught": viol, "tail": o[-900:]}
            print(f"== {p}: {'CAUGHT' if viol else 'missed'}\n{o[-900:]}")
    finally:
        sh("git -C /repo checkout -- .")
    print(json.dumps({p: r["caught"] for p, r in res.items()}))


def ptry(sdir, name, props, tier="quick"):
    base = f"/tmp/pv/{name}"
    sh(f"git -C /repo worktree remove --force {base}/repo; rm -rf {base}")
    os.makedirs(base)
    rc, o = sh(f"git -C /repo worktree add -q --detach {base}/repo HEAD && git -C {base}/repo apply {os.path.abspath(sdir)}/patch.diff")
    if rc != 0:
        print("worktree/apply failed", o)
        return
    res = {}
    try:
        src = os.environ.get("VERIF_SRC", "/verif")      # another revision of /verif (a git worktree), for "what did the older checks see"
        sh(f"rsync -a --exclude .git --exclude work --exclude replays --exclude seeded {src}/ {base}/verif/")
        if src != "/verif":
            sh(f"mkdir -p {base}/verif/harness/target && rsync -a /verif/harness/target/ {base}/verif/harness/target/; cp /verif/harness/Cargo.lock {base}/verif/harness/")
        sh(f"sed -i 's#path = \"/repo\"#path = \"{base}/repo\"#' {base}/verif/harness/Cargo.toml")
        for p in props:
            rc, o = sh(f"./check {p} --tier {tier} > /tmp/pv-{name}-{p}.full 2>&1; grep -v -E '^(Line|The error|[0-9]+\\.) ' /tmp/pv-{name}-{p}.full | tail -12", cwd=f"{base}/verif")
            viol = "VIOLATION" in o
            res[p] = viol
            print(f"== {p}: {'CAUGHT' if viol else 'missed'}\n{o[-900:]}")
    finally:
        sh(f"git -C /repo worktree remove --force {base}/repo; rm -rf {base}")
    print(json.dumps(res))


if __name__ == "__main__":
    if sys.argv[1] == "ptry":
        ptry(sys.argv[2], sys.argv[3], sys.argv[4:])
        sys.exit(0)
    if sys.argv[1] == "confirm":
        confirm(sys.argv[2], sys.argv[3], sys.argv[4])
    else:
        try_(sys.argv[2], sys.argv[3:])
