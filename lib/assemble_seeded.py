#!/usr/bin/env python3
"""Copies the confirmed seeded changes from /tmp/mut/out into /verif/seeded/<id>/ (patch.diff, demo, meta.json)."""
import json
import os
import shutil

NOTES = {
    "C01": ("C01", "caught as delivered"),
    "C02": ("C02", "caught as delivered"),
    "C03": ("C03", "caught as delivered"),
    "C04": ("C04", "caught as delivered (first attempt hit a tool error of mine: a constant missing in the MCConc config)"),
    "C05": ("C05", "MISSED at first: the read yield point sat in with_blob_item, so an open moved outside the guard was atomic with the lookup under the controller; the yield point now sits in CasManager::open_blob itself (hook commit f4071ba) - caught"),
    "C06": ("C06", "caught as delivered"),
    "C07": ("C07", "caught as delivered"),
    "C08": ("C08", "MISSED by C08 at first (its check had no concurrent half; C04 caught it); C08 now also runs the clean-up program classes under the schedule controller - caught"),
    "C09": ("C09", "caught as delivered"),
    "C10": ("C10", "MISSED at first: the violation was swallowed by the too wide signature of known finding F7; the signature now matches truncations only - caught"),
    "C11": ("C11", "caught as delivered"),
    "C12": ("C12", "caught as delivered"),
    "C13": ("C13", "caught as delivered"),
    "C14": ("C14", "MISSED at first: needs a fault while appending to a segment that an earlier session partly filled, with no rollover; fixed histories with reopen and num_ops_per_wal=10000 were added to the fault mode - caught"),
    "C15": ("C15", "caught as delivered"),
    "C16": ("C16", "MISSED by C16 at first (snapshot round trips used byte-string keys only; C02 caught it); C16 now round-trips snapshots through every key type and decodes descending-order snapshots - caught"),
    "C17": ("C17", "caught as delivered"),
    "C18": ("C18", "caught as delivered"),
    "C19": ("C19", "caught as delivered"),
    "C20": ("C20", "caught as delivered"),
}

NOTES2 = {
    "C02": ("C02", "caught as delivered"),
    "C03": ("C03", "MISSED at first: needs a log that reaches segment 10 (file-name order puts 10 before 9); long crash histories whose tail crosses the segment 9/10 boundary on the same keys were added - caught"),
    "C04": ("C04", "MISSED at first: needs one thread's put racing another thread's put AND removal of the same key and content; the family 'one operation against a thread of two operations on the same key' (DFS, <= 2 pre-emptions) was added - caught"),
    "C05": ("C05", "caught as delivered"),
    "C08": ("C08", "MISSED at first: only the EMPTY blob escapes verification; the planted-corruption catalogue now corrupts / resizes every content class (0, 1, 8192, 70000 bytes) on its own - caught"),
    "C09": ("C09", "caught as delivered"),
    "C10": ("C10", "caught as delivered"),
    "C14": ("C14", "caught as delivered"),
    "C15": ("C15", "MISSED at first: a re-entrant read on the error path of a read of a key whose blob is missing, with a writer really queued in state.write(); forced schedules (the writer blocks inside the lock) for readers parked at the blob open, with intact and with missing blobs, were added - caught"),
    "C20": ("C20", "MISSED at first: the log only becomes malformed after a failed open of the next segment file; C20 now also judges the fault histories (well-formedness after every failed call) - caught"),
    "C01": ("C01", "caught as delivered"), "C06": ("C06", "caught as delivered"), "C07": ("C07", "caught as delivered"),
    "C11": ("C11", "caught as delivered"), "C12": ("C12", "caught as delivered"), "C16": ("C16", "caught as delivered"),
    "C13": ("C13", "MISSED at first: two transactions of one key open at once, the second abandoned - the first one's finish() then FAILS; a write-side call that returns an error in a run without injected faults was not a tagged failure; tag OPFAIL added to the concurrent trace spec - caught"),
    "C17": ("C17", "MISSED at first as a tool error: the huge allocation aborts the harness process; the vector harness now records the input it is about to execute and the driver reports a process abort of the code under test as a violation - caught"),
    "C18": ("C18", "MISSED at first (probabilistic: needs two consecutive commits whose hashes collide under a wrong shard id, about 1 pair in 1700): 20 000 (quick) / 200 000 (thorough) consecutive commits of small distinct contents were added - caught"),
    "C19": ("C19", "MISSED at first: the admitted open with the other pre-creation choice was observed but not USED; the gate scenarios now run operations that need new cas/ sub-directories on the admitted handle and judge them with the ordinary per-operation conjuncts - caught"),
}
import sys
ROUND = sys.argv[1] if len(sys.argv) > 1 else "1"
BASE = "/tmp/mut" if ROUND == "1" else "/tmp/mut2"
SUFFIX = "" if ROUND == "1" else "-r2"
if ROUND != "1":
    NOTES = {k: v for k, v in NOTES2.items() if len(sys.argv) < 3 or k in sys.argv[2:]}

for pid, (check, note) in sorted(NOTES.items()):
    src = f"{BASE}/out/{pid}"
    conf = f"{BASE}/confirm_{pid}.json"
    if not (os.path.exists(src) and os.path.exists(conf)):
        print("skip", pid)
        continue
    try:
        c = json.load(open(conf))
    except Exception:
        print("confirm unreadable", pid)
        continue
    if not (c["demo_fails_with_change"] and c["demo_passes_without"] and c["baseline_70_pass"]):
        print("NOT CONFIRMED", pid, c)
        continue
    dst = f"/verif/seeded/{pid}{SUFFIX}"
    os.makedirs(dst, exist_ok=True)
    shutil.copy(os.path.join(src, "patch.diff"), dst)
    for f in os.listdir(src):
        if f.startswith("demo_"):
            shutil.copy(os.path.join(src, f), dst)
    meta = json.load(open(os.path.join(src, "meta.json")))
    meta["property"] = pid
    meta["confirmed_by_me"] = {
        "worktree": f"{BASE}/{pid} (scratch git worktree of /repo at the repaired HEAD, removed afterwards)",
        "demo_fails_with_change": True, "demo_passes_without_change": True, "baseline_70_tests_pass_with_change": True,
        "commands": ["cargo test --offline --test demo_" + pid.lower() + "   (with the change: FAILED)",
                     "git apply -R patch.diff; cargo test --offline --test demo_" + pid.lower() + "   (ok); git apply patch.diff",
                     "cargo test --offline --lib   (70 passed; 2 failed = the two baseline always-fail tests)"],
    }
    meta["checked_with"] = f"git -C /repo apply patch.diff; ./check {check} --tier quick  -> exit 1 with VIOLATION; git -C /repo checkout -- ."
    meta["detection"] = note
    json.dump(meta, open(os.path.join(dst, "meta.json"), "w"), indent=1)
    print("ok", pid)
