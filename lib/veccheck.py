"""Checks for the transcribed pure functions: C16 (Codec), C17 (RangeRead), C18 (BlobId)."""
import json
import os
import subprocess
import time

import common
from common import ToolError, cfg_text, ensure_built, log, parse_mc, save_replay, seed, tlc, trace_line, write_evidence, workdir

PLAN = {
    "C16": {"what": ["codec", "blob"], "mc": ("MCCodec", {"quick": {"Alpha": "{0, 1, 255}", "MaxLen": 4, "KeyAlpha": "{0, 255}", "MaxKeyLen": 1},
                                                         "thorough": {"Alpha": "{0, 1, 2, 255}", "MaxLen": 6, "KeyAlpha": "{0, 1, 255}", "MaxKeyLen": 2}},
            ["Inv_C16_Total", "Inv_C16_RoundTrip", "Inv_C16_Prefix", "Inv_C16_SnapRoundTrip"])},
    "C17": {"what": ["range"], "mc": ("MCRange", {"quick": {"Lens": "{0, 1, 2, 3, 4, 5, 6, 40}"}, "thorough": {"Lens": "{" + ", ".join(str(i) for i in range(0, 49)) + "}"}}, ["Inv_C17"])},
    "C18": {"what": ["blob"], "mc": ("MCBlob", {"quick": {"MaxAtoms": 4, "Cap": 2, "NibAlpha": "{0, 9, 10, 15}", "HLen": 6},
                                               "thorough": {"MaxAtoms": 6, "Cap": 2, "NibAlpha": "{0, 9, 10, 15}", "HLen": 7}},
            ["Inv_C18_Identity", "Inv_C18_NoReorder", "Inv_C18_PathBijection"])},
}


def run_vec_check(prop, tier, replay=None):
    t0 = time.time()
    ensure_built()
    plan = PLAN[prop]
    mod, consts, invs = plan["mc"]
    out = tlc(mod, cfg_text(consts[tier], invariants=invs), workers=8, timeout=2400, heap="8g", name="mcv")
    mc = parse_mc(out)
    if mc["error"] or not mc["finished"]:
        raise ToolError(f"{mod} failed: {mc['error']}\n{out[-2000:]}")
    log(f"[{prop}] {mod}: {mc['distinct']} distinct states, violated={mc['violated']}")
    wd = workdir()
    traces = []
    t1 = time.time()
    for w in plan["what"]:
        outp = os.path.join(wd, f"vec-{w}.ndjson")
        r = subprocess.run([common.BIN, "vec", "--what", w, "--out", outp, "--scratch", os.path.join(wd, "vscr"), "--tier", tier,
                            "--seed", str(seed())], capture_output=True, text=True, timeout=3000)
        if r.returncode != 0:
            cur = outp + ".cur"
            if os.path.exists(cur):
                # the code under test killed the process (abort on allocation failure, stack overflow ...): that is data
                vec = json.load(open(cur))
                rp = save_replay(prop, {"vector": vec, "tags": [prop + ":process-aborted"], "stderr": r.stderr[-600:]})
                print(f"VIOLATION property={prop} replay={rp}")
                log(f"[{prop}]   the harness process died while executing {json.dumps(vec)[:300]}")
                write_evidence(prop, tier, "model_checking",
                               {"states": max(1, mc["distinct"]), "transitions": max(1, mc["states"]), "traces_validated_against_impl": 0,
                                "samples": [vec], "aborted": True}, time.time() - t0, 1, ["process abort of the code under test is a violation"])
                return 1
            pf = outp + ".panic"
            pinfo = json.load(open(pf)) if os.path.exists(pf) else None
            if pinfo and os.path.isabs(pinfo["file"]) and "/.cargo/" not in pinfo["file"] and "/rustc/" not in pinfo["file"] and "/verif/harness/" not in pinfo["file"]:
                # the library itself panicked (location inside the crate under test) in a call the harness does not guard
                rp = save_replay(prop, {"vector": {"what": w}, "tags": [prop + ":library-panicked"], "panic": pinfo})
                print(f"VIOLATION property={prop} replay={rp}")
                log(f"[{prop}]   the library panicked inside the vector harness ({w}): {pinfo['file']}:{pinfo['line']} {pinfo['msg'][:300]}")
                write_evidence(prop, tier, "model_checking",
                               {"states": max(1, mc["distinct"]), "transitions": max(1, mc["states"]), "traces_validated_against_impl": 0,
                                "samples": [{"what": w}], "aborted": True}, time.time() - t0, 1, ["a panic raised inside the library is a violation"])
                return 1
            if "on an `Err` value" in r.stderr or "on a `None` value" in r.stderr:
                # a library call that never fails on the unchanged tree returned an error and the harness gave up: that is data
                rp = save_replay(prop, {"vector": {"what": w}, "tags": [prop + ":library-call-failed"], "stderr": r.stderr[-1500:]})
                print(f"VIOLATION property={prop} replay={rp}")
                log(f"[{prop}]   a library call failed inside the vector harness ({w}): {r.stderr[-400:]}")
                write_evidence(prop, tier, "model_checking",
                               {"states": max(1, mc["distinct"]), "transitions": max(1, mc["states"]), "traces_validated_against_impl": 0,
                                "samples": [{"what": w}], "aborted": True}, time.time() - t0, 1, ["a failing library call in the vector harness is a violation"])
                return 1
            raise ToolError(f"harness vec {w} failed: {r.stderr[-2000:]}")
        traces.append(outp)
    t2 = time.time()
    fails, st = common.validate_traces(traces, module="TraceVec", cfg="SPECIFICATION Spec\nPOSTCONDITION AllConsumed\nCHECK_DEADLOCK FALSE\n")
    t3 = time.time()
    log(f"[{prop}] harness {t2 - t1:.1f}s, validation {t3 - t2:.1f}s, {st['lines']} lines, {len(fails)} lines with failed checks")
    nviol = 0
    seen = set()
    for f in fails:
        mine = [t for t in f["tags"] if t.startswith(prop + ":")]
        if not mine or mine[0] in seen:
            continue
        seen.add(mine[0])
        line = trace_line(f["trace"], f["line"])
        rp = save_replay(prop, {"vector": line, "tags": mine})
        print(f"VIOLATION property={prop} replay={rp}")
        log(f"[{prop}]   tags={mine} input={json.dumps(line)[:300]}")
        nviol += 1
        if nviol >= 5:
            break
    for t in mc["violated"]:
        print(f"VIOLATION property={prop} replay={save_replay(prop, {'model_invariant': t, 'module': mod})}")
        nviol += 1
    samples = []
    for tpath in traces:
        with open(tpath) as fh:
            for i, x in enumerate(fh):
                if i in (3, 700):
                    samples.append(json.loads(x))
    nlines = st["lines"]
    cov = {"states": max(1, mc["distinct"]), "transitions": max(1, mc["states"]), "traces_validated_against_impl": nlines - len(fails),
           "samples": samples[:4], "vectors": nlines, "model_module": mod, "model_constants": consts[tier], "model_invariants": invs,
           "exhaustive": True, "harness_s": round(t2 - t1, 1), "validation_s": round(t3 - t2, 1)}
    write_evidence(prop, tier, "model_checking", cov, time.time() - t0, nviol,
                   ["the transcription (RangeRead/BlobId/Codec) is bound to the code by one recorded call per enumerated input",
                    "u32 values >= 65536 and u64 fields are symbolic in the specification; BLAKE3 itself is not transcribed (an independent one-shot hash is the reference)",
                    "allocation is measured by a counting global allocator in the harness"])
    return 1 if nviol else 0
