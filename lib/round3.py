#!/usr/bin/env python3
"""Round 3+ of the seeded changes (tooling, not a check).
  round3.py confirm <id> <V>     confirm /tmp/mut3/out/<id>/<V> in the agent's scratch worktree /tmp/mut3/wt/<id>:
                                 demo fails with the change, passes without it, 70 baseline tests pass with it;
                                 a confirmed change is copied to /verif/seeded/<id>-r3<v>/ at once (detection: pending)
  round3.py ptry <id> <V> [prop..]   run the quick check(s) against it in a scratch copy (seed.py ptry), record the result
  round3.py try  <id> <V>        the recorded confirmation: apply to /repo, ./check <id> --tier quick, undo
"""
import json
import os
import shutil
import subprocess
import sys

ROOT = "/verif"
BASE = os.environ.get("MUT_BASE", "/tmp/mut3")
RND = os.environ.get("MUT_RND", "r3")     # MUT_BASE=/tmp/mut4 MUT_RND=r4 for round 4


def sh(cmd, cwd=None, timeout=6000, env=None):
    e = dict(os.environ)
    if env:
        e.update(env)
    r = subprocess.run(cmd, shell=True, cwd=cwd, capture_output=True, text=True, timeout=timeout, env=e)
    return r.returncode, r.stdout + r.stderr


def sdir(pid, v, rnd=None):
    rnd = rnd or RND
    return f"{ROOT}/seeded/{pid}-{rnd}{v.lower()}"


def confirm(pid, v, rnd=None):
    src = f"{BASE}/out/{pid}/{v}"
    wt = f"{BASE}/wt/{pid}"
    demos = [f for f in os.listdir(src) if f.startswith("demo") and f.endswith(".rs")]
    if not demos or not os.path.exists(f"{src}/patch.diff"):
        print("incomplete delivery", src)
        return False
    demo = demos[0]
    name = demo[:-3]
    env = {"CARGO_TARGET_DIR": f"{wt}/target", "CARGO_NET_OFFLINE": "true", "TMPDIR": "/dev/shm/mut3tmp"}
    sh("git checkout -- . ; rm -rf tests", cwd=wt)
    os.makedirs(f"{wt}/tests", exist_ok=True)
    shutil.copy(f"{src}/{demo}", f"{wt}/tests/{demo}")
    feat = " --features verif" if "verif::" in open(f"{src}/{demo}").read() else ""
    res = {}
    rc, o = sh(f"git apply {src}/patch.diff", cwd=wt)
    if rc != 0:
        res["error"] = "patch does not apply: " + o[-300:]
    else:
        rc1, o1 = sh(f"timeout 900 cargo test --offline{feat} --test {name} 2>&1 | tail -12", cwd=wt, env=env)
        res["demo_fails_with_change"] = ("test result: FAILED" in o1) or ("panicked" in o1)
        res["with"] = o1[-500:]
        rc3, o3 = sh("timeout 1500 cargo test --offline --lib 2>&1 | grep -E '^test result'", cwd=wt, env=env)
        res["baseline_70_pass"] = "70 passed; 2 failed" in o3
        res["baseline"] = o3.strip()
        rcb, ob = sh("cargo build --offline --features verif 2>&1 | tail -3", cwd=wt, env=env)
        res["builds_with_verif"] = rcb == 0 and "error" not in ob
        sh(f"git apply -R {src}/patch.diff", cwd=wt)
        rc2, o2 = sh(f"timeout 900 cargo test --offline{feat} --test {name} 2>&1 | tail -6", cwd=wt, env=env)
        res["demo_passes_without"] = "test result: ok" in o2 and "FAILED" not in o2
        res["without"] = o2[-300:]
    sh("git checkout -- . ; rm -rf tests", cwd=wt)
    json.dump(res, open(f"{src}/confirm.json", "w"), indent=1)
    ok = bool(res.get("demo_fails_with_change") and res.get("demo_passes_without") and res.get("baseline_70_pass") and res.get("builds_with_verif"))
    print(pid, v, "CONFIRMED" if ok else "NOT CONFIRMED", {k: res.get(k) for k in ("demo_fails_with_change", "demo_passes_without", "baseline_70_pass", "builds_with_verif", "error")})
    if ok:
        dst = sdir(pid, v, rnd)
        os.makedirs(dst, exist_ok=True)
        shutil.copy(f"{src}/patch.diff", dst)
        shutil.copy(f"{src}/{demo}", dst)
        try:
            meta = json.load(open(f"{src}/meta.json"))
        except Exception:
            meta = {"summary": open(f"{src}/meta.json").read() if os.path.exists(f"{src}/meta.json") else ""}
        meta["property"] = pid
        meta["tests_pass"] = True
        meta["confirmed_by_me"] = {
            "worktree": f"{wt} (scratch git worktree of /repo at HEAD, removed afterwards)",
            "demo_fails_with_change": True, "demo_passes_without_change": True, "baseline_70_tests_pass_with_change": True,
            "builds_with_feature_verif": True,
            "commands": [f"git apply patch.diff; cargo test --offline{feat} --test {name}   (FAILED)",
                         "cargo test --offline --lib   (70 passed; 2 failed = the two baseline always-fail tests)",
                         f"git apply -R patch.diff; cargo test --offline{feat} --test {name}   (ok)"]}
        meta.setdefault("detection", "pending")
        json.dump(meta, open(f"{dst}/meta.json", "w"), indent=1)
    return ok


def record(pid, v, how, caught, tail, rnd=None):
    with open(f"{ROOT}/work/round3_results.txt", "a") as f:
        f.write(json.dumps({"id": pid, "v": v, "rnd": rnd or RND, "how": how, "caught": caught, "tail": tail[-1500:]}) + "\n")


def ptry(pid, v, props, rnd=None):
    d = sdir(pid, v, rnd)
    rc, o = sh(f"python3 {ROOT}/lib/seed.py ptry {d} {pid}{v}{os.getpid()} {' '.join(props)}", timeout=9000)
    last = o.strip().split("\n")[-1]
    try:
        res = json.loads(last)
    except Exception:
        res = {}
    print(pid, v, "ptry", res)
    record(pid, v, "ptry", res, o, rnd)
    return res


def try_(pid, v, rnd=None):
    d = sdir(pid, v, rnd)
    rc, o = sh(f"python3 {ROOT}/lib/seed.py try {d} {pid}", timeout=9000)
    last = o.strip().split("\n")[-1]
    try:
        res = json.loads(last)
    except Exception:
        res = {}
    print(pid, v, "try", res)
    record(pid, v, "try", res, o, rnd)
    return res


if __name__ == "__main__":
    cmd, pid, v = sys.argv[1:4]
    if cmd == "confirm":
        confirm(pid, v)
    elif cmd == "ptry":
        ptry(pid, v, sys.argv[4:] or [pid])
    elif cmd == "try":
        try_(pid, v)
    elif cmd == "all":
        if confirm(pid, v):
            ptry(pid, v, sys.argv[4:] or [pid])
