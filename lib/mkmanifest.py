#!/usr/bin/env python3
"""Regenerates /verif/MANIFEST.json from the table below (keeps it valid at all times)."""
import json
import os

ROOT = os.path.dirname(os.path.dirname(os.path.abspath(__file__)))

CHECKS = {
    "C01": ("TLC model check of CasSteps (Inv_C01) + TLC-generated histories replayed on the code, every observation validated by TLC against RunOp of the same spec",
            "5.C01"),
    "C02": ("TLC model check (versions never reused, open never fails) + histories with reopen/checkpoint at every position replayed and validated by TLC (TraceSeq: C02 stability conjunct)", "5.C02"),
    "C03": ("TLC model check of CasSteps with Crash between any two steps (Inv_C03) and liveness of recovery under weak fairness of the code's steps (FairSpec: Live_Returns, Live_Reopens) + crash image at every libc-call boundary of real runs (LD_PRELOAD), nested, each recovered by the real code and judged by TLC", "5.C03"),
    "C06": ("hash of every cas/ file at every boundary image and after every operation, judged by TLC (C06 conjunct); model: blobs only appear by rename of flushed bytes", "5.C06"),
    "C07": ("TLC model check (Inv_C07 of CasSteps; Inv_C07/Inv_C04 of CasConc over all interleavings) + directory listing after every operation of every replayed history and at the end of every explored schedule of error-free concurrent programs, compared by TLC with Live(index)", "5.C07"),
    "C08": ("orphan statistics of every crash image and of planted-garbage directories compared by TLC with Scan() over an independent directory decode; clean-up postconditions", "5.C08"),
    "C09": ("power-loss images (every boundary x every subset of files with unsynced bytes; contents up to exactly 4 MiB streamed in small pieces) recovered by the real code and judged by TLC with the C03 oracle", "5.C09"),
    "C10": ("every truncation offset / byte flip of the un-checkpointed log, open result compared by TLC with the longest-intact-prefix state", "5.C10"),
    "C12": ("incremental vs from-scratch counts as TLC invariant (Inv_C12) + known_blobs/stats/sizes after every operation and recovery validated by TLC", "5.C12"),
    "C13": ("abort as menu item of every history; TLC compares the full observation and the decoded directory before/after", "5.C13"),
    "C14": ("one injected errno at every mutating libc call of every scenario; TLC tracks per-key allowed values (fm) over the continuation and the reopen", "5.C14"),
    "C19": ("matrix creation-N x reopen-N x stored version x pre-creation on populated stores; TLC decides admitted/rejected and requires an unchanged directory", "5.C19"),
    "C20": ("independent decoder (alpha) of the directory at every libc-call boundary of sequential and fault histories and after every scheduling step of writers racing with checkpoints; TLC evaluates well-formedness, version rules, acked-present and decode = history (Recover of the model); CasConc carries the durable log (Inv_C03x)", "5.C20"),
}
CHECKS.update({
    "C04": ("TLC exhaustive interleavings of CasConc (Inv_C04, Inv_C07, Inv_C03x = a kill at any instant recovers without dangling keys) + real threads serialised at yield points: DFS (<=2 pre-emptions), random and TLC-generated schedules; index vs hashed cas/ listing after every scheduling step judged by TLC (TraceConc)", "5.C04"),
    "C05": ("TLC exhaustive interleavings (Inv_C05 read monitor) + reader/writer programs on the real code under the schedule controller; TLC checks every returned value against the values observed during the call", "5.C05"),
    "C15": ("TLC deadlock check + liveness (WF) + lock-order invariant on CasConc; controller detects blocked workers in explored schedules of the real code", "5.C15"),
})
CHECKS.update({
    "C11": ("TLC exhaustive orders of open/open-by-alias-path/clone/drop/clean-up/kill over CasLock (flock race as separate steps) + the printed behaviours replayed with real processes and handles; results, interposer log of losing opens and directory digests validated by TLC (TraceLock)", "5.C11"),
    "C16": ("codecs and segment framing transcribed in TLA+ (Codec): round-trip and totality model-checked; every enumerated byte string / value / mutation is decoded by the real functions and compared by TLC; counting allocator for the allocation bound", "5.C16"),
    "C17": ("get_range transcribed in TLA+ (RangeRead); the property is an invariant over the whole (L,start,end) cube incl. symbolic 2^32, 2^63, 2^64-1; every point executed on real blobs and compared by TLC", "5.C17"),
    "C18": ("buffered transaction and hash<->path mapping in TLA+ (BlobId): all chunkings model-checked; real transactions for all chunkings x atom sizes and path vectors validated by TLC against an independent BLAKE3", "5.C18"),
})
PENDING = {
    "C11": "CasLock specification and multi-process harness not built yet in this revision",
    "C16": "Codec/WalFrame specification and vector harness not built yet in this revision",
    "C17": "RangeRead specification and vector harness not built yet in this revision",
    "C18": "BlobId specification and vector harness not built yet in this revision",
}


def main():
    checks = []
    for pid, (text, ref) in sorted(CHECKS.items()):
        checks.append({
            "property_id": pid,
            "quick_cmd": f"./check {pid} --tier quick",
            "thorough_cmd": f"./check {pid} --tier thorough",
            "evidence_file": f"/verif/evidence/{pid}.json",
            "replay_cmd_template": f"./check {pid} --replay {{path}}",
            "engine": ENGINE.get(pid, "seq"),
            "level_claimed": {"category": "model_checking", "text": text, "design_ref": ref},
            "level_note": NOTE.get(pid, "TLC exhaustive only up to the constants recorded in the evidence; the code is bound to the spec by trace validation of recorded runs (harness, LD_PRELOAD interposer, independent decoder are trusted); BLAKE3, kernel rename/flock, parking_lot trusted"),
            "technique": TECH.get(pid, "TLA+ spec (CasSteps) model-checked by TLC + trace validation of recorded real executions (TraceSeq)"),
        })
    na = [{"property_id": p, "reason": r} for p, r in sorted(PENDING.items()) if p not in CHECKS]
    man = {
        "version": 1,
        "setup_cmd": "./setup.sh",
        "hooks": {
            "guard": "cargo feature `verif` of cassadilia",
            "enable": "harness/Cargo.toml: cassadilia = { path = \"/repo\", features = [\"verif\"] }",
            "baseline_off_cmd": "cd /repo && cargo test --workspace --no-fail-fast --offline",
            "source_commits": ["4c760dc", "7bc0271", "f4071ba"],
            "add_only": True,
        },
        "engines": [
            {"name": "seq", "path": "/verif/lib/seqcheck.py", "serves_properties": sorted(p for p in CHECKS if ENGINE.get(p, "seq") == "seq"),
             "kind_free_text": "TLC model check of spec/MCSteps + spec/GenSeq scenario generation + harness/ (Rust, real crate, LD_PRELOAD shim) + TLC trace validation spec/TraceSeq"},
        ] + EXTRA_ENGINES,
        "checks": checks,
        "not_applicable": na,
        "notes": "All verdicts come from TLC evaluating TLA+ predicates over recorded executions of the real code or over the model itself; see DESIGN.md. Fixed defects are listed in known_findings.json.",
    }
    with open(os.path.join(ROOT, "MANIFEST.json"), "w") as f:
        json.dump(man, f, indent=1)
        f.write("\n")


ENGINE = {"C04": "conc", "C05": "conc", "C15": "conc", "C11": "lock", "C16": "vec", "C17": "vec", "C18": "vec"}
CONC_NOTE = "threads are serialised at the yield points of the verif feature (every lock acquisition and every shared filesystem call), so races inside one step and memory-model effects are not explored; TLC exhaustive only up to the thread/operation counts in the evidence; parking_lot and kernel rename/unlink trusted"
VEC_NOTE = "the transcription is bound to the code by one recorded call per enumerated input; exhaustive only inside the enumerated domain (sizes in the evidence), seeded random beyond; u32 >= 65536 and u64 values are symbolic in TLA+; BLAKE3 itself trusted"
NOTE = {"C04": CONC_NOTE, "C05": CONC_NOTE, "C15": CONC_NOTE, "C16": VEC_NOTE, "C17": VEC_NOTE, "C18": VEC_NOTE,
        "C11": "kernel flock semantics trusted; 2-4 processes and up to 3 handles; racing opens are barrier-started, not exhaustively timed"}
CONC_TECH = "TLA+ spec (CasConc) model-checked by TLC over all interleavings + schedule-controlled real threads validated against the spec by TLC (TraceConc)"
VEC_TECH = "function transcribed in TLA+, property model-checked by TLC over the enumerated domain + TLC validation of recorded real calls (TraceVec)"
SEQCONC_TECH = "TLA+ specs (CasSteps, CasConc) model-checked by TLC + trace validation of recorded real executions: sequential histories (TraceSeq) and schedule-controlled threads (TraceConc)"
TECH = {"C07": SEQCONC_TECH, "C08": SEQCONC_TECH, "C13": SEQCONC_TECH, "C20": SEQCONC_TECH, "C04": CONC_TECH, "C05": CONC_TECH, "C15": CONC_TECH, "C16": VEC_TECH, "C17": VEC_TECH, "C18": VEC_TECH,
        "C11": "TLA+ spec (CasLock) model-checked by TLC + TLC-generated action sequences replayed with real processes, validated by TLC (TraceLock)"}
EXTRA_ENGINES = [{"name": "conc", "path": "/verif/lib/conccheck.py", "serves_properties": ["C04", "C05", "C15", "C07", "C08", "C13", "C20"],
                  "kind_free_text": "TLC model check of spec/MCConc + harness/src/conc.rs schedule controller over cassadilia::verif yield points + TLC trace validation spec/TraceConc"},
                 {"name": "vec", "path": "/verif/lib/veccheck.py", "serves_properties": ["C16", "C17", "C18"],
                  "kind_free_text": "spec/{RangeRead,BlobId,Codec}.tla + MC modules + harness/src/vecs.rs + spec/TraceVec.tla"},
                 {"name": "lock", "path": "/verif/lib/lockcheck.py", "serves_properties": ["C11"],
                  "kind_free_text": "spec/{CasLock,MCLock,TraceLock}.tla + harness/src/lockp.rs (self re-exec child processes)"}]

if __name__ == "__main__":
    main()
