#!/bin/sh
# Runs the quick check of the owning property against every seeded change (seeded/<id>[-rN]/patch.diff).
# Usage: lib/regress_seeded.sh [dir ...]   (default: all of /verif/seeded); results appended to /verif/work/regress.txt
cd /verif
mkdir -p work
out=work/regress.txt
dirs="$@"
[ -z "$dirs" ] && dirs=$(ls -d /verif/seeded/*/)
for d in $dirs; do
  d=${d%/}
  [ -f $d/patch.diff ] || continue
  id=$(python3 -c "import json,sys; print(json.load(open('$d/meta.json'))['property'])" 2>/dev/null)
  [ -z "$id" ] && id=$(basename $(dirname $d))
  r=$(python3 lib/seed.py try $d $id 2>&1 | tail -1)
  echo "$d $r" >> $out
done
echo DONE >> $out
