"""Checks decided with CasConc (+MCConc, TraceConc) and the schedule controller: C04 C05 C15."""
import itertools
import json
import os
import random
import time

from common import (HangFound, ToolError, cfg_text, ensure_built, load_known, log, parse_mc, run_harness, save_replay, seed, tlc,
                    trace_line, validate_traces, write_evidence, workdir)

# the model describes the code as it is now (both repairs are in /repo): see DESIGN.md section 6
CODE_FLAGS = {"IntentsPerHash": "TRUE", "OpenUnderGuard": "TRUE"}

MC_BASE = dict(CODE_FLAGS, NK=2, NT=2, OpsPerThread=1, ProgKeys="{1, 2}", ProgContents='{"A", "B"}', WalN=10000,
               WithReads="TRUE", WithCleanup="FALSE", WithCkpt="TRUE", WithGuard="FALSE", WithFail="FALSE")


def mc_configs(tier):
    q = [dict(MC_BASE), dict(MC_BASE, WithCleanup="TRUE", WithCkpt="FALSE", ProgKeys="{1}", ProgContents='{"A", "C"}'),
         dict(MC_BASE, WalN=1, ProgKeys="{1}", WithReads="FALSE")]
    # a commit whose rename fails after its intent was registered (fault x concurrency): the reverted commit gives back its own
    # protection only
    q.append(dict(MC_BASE, WithFail="TRUE", ProgKeys="{1}", WithReads="FALSE", WithCkpt="FALSE"))
    if tier == "quick":
        return q
    q.append(dict(MC_BASE, WithFail="TRUE", NT=3, ProgKeys="{1}", ProgContents='{"A"}', NK=2, WithReads="FALSE", WithCkpt="FALSE"))
    return q + [dict(MC_BASE, NT=3, ProgKeys="{1}", WithCkpt="FALSE"),
                dict(MC_BASE, OpsPerThread=2, ProgKeys="{1}", WithCkpt="FALSE"),
                dict(MC_BASE, NT=3, ProgKeys="{1}", ProgContents='{"A", "C"}', WithCleanup="TRUE", WithCkpt="FALSE", WithReads="FALSE")]


def run_mc(tier, invariants, liveness=False, prop=None):
    tot = {"states": 0, "transitions": 0, "violated": [], "configs": []}
    cfgs = mc_configs(tier)
    if prop == "C20":
        # C20's own model is MCSteps (sequential half); here only the kill-safety of the durable side under interleaving
        cfgs = [dict(MC_BASE, WalN=1, ProgKeys="{1}", WithReads="FALSE")] if tier == "quick" else cfgs[:3]
    if tier == "quick" and prop in ("C07", "C08", "C13"):
        # the concurrent halves of sequential properties: the two small configurations (C04's own run has all of them)
        cfgs = cfgs[1:]
    for c in cfgs:
        extra = ["VIEW View"]
        # C07 speaks of error-free programs: not an invariant of the configurations with a commit that is made to fail
        invs_c = [i for i in invariants if not (c.get("WithFail") == "TRUE" and i == "Inv_C07")]
        out = tlc("MCConc", cfg_text(c, invariants=invs_c, extra=extra).replace("CHECK_DEADLOCK FALSE", "CHECK_DEADLOCK TRUE"),
                  workers=8, timeout=2400, heap="12g", name="mcc")
        r = parse_mc(out)
        if r["error"] or not r["finished"]:
            raise ToolError("MCConc failed: " + str(r["error"]) + out[-2000:])
        tot["states"] += r["distinct"]
        tot["transitions"] += r["states"]
        tot["violated"] += r["violated"]
        tot["configs"].append(dict(c, distinct=r["distinct"], depth=r["depth"]))
    if liveness:
        # the user-held read guard class: TLC's deadlock is finding F6 (reported only through its reproduction on the code)
        c = dict(MC_BASE, ProgKeys="{1}", WithGuard="TRUE")
        out = tlc("MCConc", cfg_text(c, extra=["VIEW View"]).replace("CHECK_DEADLOCK FALSE", "CHECK_DEADLOCK TRUE"), workers=4, timeout=1200, name="mcg")
        tot["configs"].append(dict(c, deadlock_reached=("Deadlock reached" in out)))
        tot["guard_class_deadlock"] = "Deadlock reached" in out
        c = dict(MC_BASE, ProgKeys="{1}", WithCkpt="TRUE")
        out = tlc("MCConc", cfg_text(c, spec="FairSpec", extra=["PROPERTY Live_C15"]).replace("CHECK_DEADLOCK FALSE", "CHECK_DEADLOCK TRUE"),
                  workers=4, timeout=2400, heap="8g", name="mcl")
        r = parse_mc(out)
        if r["error"] or not r["finished"]:
            raise ToolError("MCConc liveness failed: " + str(r["error"]) + out[-2000:])
        tot["violated"] += r["violated"]
        tot["states"] += r["distinct"]
        tot["transitions"] += r["states"]
        tot["configs"].append(dict(c, spec="FairSpec", property="Live_C15", distinct=r["distinct"]))
    return tot


def guided_from_tlc(num, depth, consts):
    """behaviours of the specification (random walks of MCConc to completion) as schedules for the controller"""
    cfg = cfg_text(dict(consts), invariants=["EmitSchedule"])
    out = tlc("MCConc", cfg, workers=1, args=["-simulate", f"num={num}", "-depth", str(depth), "-seed", str(seed())],
              timeout=900, name="gconc")
    res = []
    for line in out.split("\n"):
        if line.startswith('"CSCHED@'):
            b = json.loads(json.loads(line)[len("CSCHED@"):])
            # negative entries are "thread t queues for the write lock" steps of the model: a queued thread is blocked, the
            # controller never schedules it, so they are no choices of a replayed schedule
            b["sched"] = [x for x in b["sched"] if x > 0]
            res.append(b)
    if not res:
        raise ToolError("no schedules generated:\n" + out[-2000:])
    return res


W = [{"op": "put", "k": 1, "c": "A"}, {"op": "put", "k": 1, "c": "B"}, {"op": "put", "k": 2, "c": "A"}, {"op": "put", "k": 2, "c": "B"},
     {"op": "del", "k": 1}, {"op": "del", "k": 2}, {"op": "delr", "lo": ["U", 0], "hi": ["U", 0]}, {"op": "ckpt"}]
R = [{"op": "get", "k": 1}, {"op": "size", "k": 1}, {"op": "range", "k": 1}, {"op": "reader", "k": 1}]
INITS = [[], [{"op": "put", "k": 1, "c": "A"}], [{"op": "put", "k": 1, "c": "A"}, {"op": "put", "k": 2, "c": "A"}],
         [{"op": "put", "k": 1, "c": "B"}, {"op": "put", "k": 2, "c": "A"}]]


def build_scenarios(prop, tier, rnd):
    q = tier == "quick"
    sc = []

    def add(init, threads, explore, plant=None, n=10000, kt="string"):
        sc.append({"id": f"{prop}-{len(sc)}", "cfg": {"kt": kt, "n": n, "sync": True}, "init": init, "plant": plant or [],
                   "threads": threads, "env": {"mode": "conc"}, "explore": explore})

    dfs = {"kind": "dfs", "bound": 2, "runs": 60 if q else 600}
    if prop == "C08":
        deep = {"kind": "dfs", "bound": 3, "runs": 90 if q else 1500}
        for cl in ("cleanup", "quarantine", "cleanone"):
            for other in ([{"op": "put", "k": 1, "c": "C"}], [{"op": "put", "k": 2, "c": "C"}, {"op": "del", "k": 2}], [{"op": "del", "k": 1}],
                          [{"op": "put", "k": 2, "c": "C"}, {"op": "put", "k": 2, "c": "A"}]):
                for pl in ([{"c": "C"}], [{"c": "C"}, {"c": "E"}], [{"c": "E"}, {"c": "C"}]):
                    add([{"op": "put", "k": 1, "c": "A"}], [[{"op": cl, "c": "C"}], other], deep, plant=pl)
            # three parties: the clean-up, a put of the orphaned content, and a second put of the SAME key with another (or the
            # same) content that takes over the key's slot while the first commit is still in flight
            for a, b in (([{"op": "put", "k": 2, "c": "C"}], [{"op": "put", "k": 2, "c": "B"}]), ([{"op": "put", "k": 2, "c": "C"}], [{"op": "put", "k": 2, "c": "C"}]),
                         ([{"op": "put", "k": 1, "c": "C"}], [{"op": "put", "k": 1, "c": "A"}]))[: (2 if q else 3)]:
                add([{"op": "put", "k": 1, "c": "A"}], [[{"op": cl, "c": "C"}], a, b], dict(deep, runs=120 if q else 2500), plant=[{"c": "C"}])
                add([{"op": "put", "k": 1, "c": "A"}], [[{"op": cl, "c": "C"}], a, b], {"kind": "random", "runs": 40 if q else 600, "seed": seed()}, plant=[{"c": "C"}])
            # a staging leftover of an earlier crash next to the orphan: clean-up removes the REPORTED staging files only, never
            # the staging file of a transaction that is open or committing while it runs
            for other in ([{"op": "put", "k": 2, "c": "B"}], [{"op": "put", "k": 1, "c": "C"}], [{"op": "txbegin", "k": 2, "c": "G"}, {"op": "txfinish", "k": 2, "c": "G"}]):
                add([{"op": "put", "k": 1, "c": "A"}], [[{"op": cl, "c": "C"}], other], deep, plant=[{"c": "C"}, {"c": "-", "kind": "staging"}])
        return sc
    if prop == "C20":
        # the log and the snapshot at every scheduling step of writers racing with checkpoints (explicit and rollover):
        # decoded by the independent reader after every step; at quiescence snapshot + log = the state the handle shows
        k = lambda i, c: {"op": "put", "k": i, "c": c}
        ck = {"op": "ckpt"}
        progs = [[[k(1, "A")], [ck]], [[k(1, "A"), k(2, "B")], [ck]], [[k(1, "B"), {"op": "del", "k": 1}], [ck, ck]],
                 [[k(1, "A")], [k(2, "B")], [ck]], [[W[6]], [ck]], [[k(1, "A")], [k(1, "B")]], [[k(2, "A"), ck], [{"op": "del", "k": 1}]]]
        for i, th in enumerate(progs if not q else progs[:5]):
            for n in ([1, 2, 10000] if not q else [[1, 2, 10000][i % 3], [2, 1, 3][i % 3]]):
                add(INITS[1 + i % 3], th, dict(dfs, runs=60 if q else 600), n=n, kt=["string", "u32"][i % 2])
        return sc
    if prop == "C13":
        # transactions that are really open at the same time on one key: one is abandoned, the other commits
        fin = lambda c: [{"op": "txbegin", "k": 1, "c": c}, {"op": "txfinish", "k": 1, "c": c}]
        ab = lambda c: [{"op": "txbegin", "k": 1, "c": c}, {"op": "txabort", "k": 1, "c": c}]
        for init in INITS[:2]:
            for a, b in ((fin("A"), ab("B")), (fin("B"), ab("B")), (fin("G"), ab("A")), (ab("A"), ab("B"))):
                add(init, [a, b], dfs)
            add(init, [fin("B"), ab("A"), [{"op": "get", "k": 1}]], dfs)
        # a commit that FAILS after its intent was registered (its rename into cas/ fails) next to another commit, a removal, a
        # read of the same key: the reverted commit changes nothing and takes nobody else's protection away
        pf = lambda c: [{"op": "putfail", "k": 1, "c": c}]
        for other in ([{"op": "put", "k": 1, "c": "B"}], [{"op": "put", "k": 1, "c": "A"}], [{"op": "del", "k": 1}], [{"op": "get", "k": 1}]):
            for init in INITS[:2]:
                add(init, [pf("B"), other], dfs)
        for c in ("A", "B"):
            thr = [[{"op": "put", "k": 1, "c": c}], pf(c), [{"op": "del", "k": 2}]]
            add([{"op": "put", "k": 2, "c": c}], thr, {"kind": "dfs", "bound": 3, "runs": 200 if q else 3000})
            add([{"op": "put", "k": 2, "c": c}], thr, {"kind": "random", "runs": 60 if q else 800, "seed": seed()})
        for other in ([{"op": "put", "k": 1, "c": "B"}], [{"op": "del", "k": 1}], [{"op": "get", "k": 1}], [{"op": "put", "k": 1, "c": "A"}]):
            for init in INITS[:2]:
                add(init, [[{"op": "abort", "k": 1, "c": "B"}, {"op": "abort", "k": 1, "c": "A"}], other], dfs)
                add(init, [[{"op": "abort", "k": 1, "c": "G"}], other, [{"op": "abort", "k": 1, "c": "A"}]], dfs)
        return sc
    pairs = []
    if prop in ("C04", "C07", "C15"):
        pairs += list(itertools.combinations_with_replacement(W, 2))
    if prop in ("C05", "C15"):
        pairs += [(r, w) for r in R for w in W if w.get("k", 1) == 1 or w["op"] in ("delr",)]
    if q:
        rnd.shuffle(pairs)
        pairs = pairs[:26]
    for i, (a, b) in enumerate(pairs):
        for j, init in enumerate(INITS if not q else [INITS[(i + j0) % len(INITS)] for j0 in (0, 1)]):
            add(init, [[a], [b]], dfs, n=[10000, 1, 2][(i + j) % 3], kt=["string", "bytes", "u32"][i % 3])
    # one operation against a thread of TWO operations on the same key (commit, then removal/overwrite, before the
    # other commit is applied): all schedules with at most two pre-emptions
    if prop in ("C04", "C05", "C07", "C15"):
        k1 = lambda c: {"op": "put", "k": 1, "c": c}
        seq2 = []
        for c in ("A", "B"):
            seq2 += [[k1(c), {"op": "del", "k": 1}], [k1(c), W[6]], [{"op": "del", "k": 1}, k1(c)]]
            seq2 += [[k1(c), k1(c2)] for c2 in ("A", "B")]
        # the single operation also on ANOTHER key with the same content (shared blob, different slots)
        ones = [k1("A"), k1("B"), {"op": "del", "k": 1}, {"op": "put", "k": 2, "c": "A"}, {"op": "put", "k": 2, "c": "B"}]
        combos = [(o, t2) for o in ones for t2 in seq2]
        if q:
            rnd.shuffle(combos)
            combos = combos[:14] + [(k1("A"), [k1("A"), {"op": "del", "k": 1}]), ({"op": "put", "k": 2, "c": "A"}, [k1("A"), {"op": "del", "k": 1}]),
                                    ({"op": "put", "k": 2, "c": "B"}, [k1("B"), k1("A")])]
        for i, (o, t2) in enumerate(combos):
            add(INITS[i % 2], [[o], t2], dict(dfs, runs=80 if q else 800))
    # three writers on one key / one content: all schedules with at most two pre-emptions (capped)
    if prop in ("C04", "C07", "C15"):
        k = lambda i, c: {"op": "put", "k": i, "c": c}
        trios = [[[k(1, "A")], [k(1, "A")], [{"op": "del", "k": 1}]], [[k(1, "A")], [k(2, "A")], [{"op": "del", "k": 1}]],
                 [[k(1, "B")], [k(1, "A")], [W[6]]], [[k(1, "A")], [{"op": "del", "k": 1}], [{"op": "del", "k": 2}]]]
        for i, th in enumerate(trios if not q else trios[:3]):
            add(INITS[1 + i % 2], th, dict(dfs, runs=120 if q else 2000))
        # two commits of ONE key with different contents in flight, while the only other holder of the first content goes away
        # (the later commit takes over the key's slot; the earlier commit's blob must stay protected until it is applied)
        for j, third in enumerate([[{"op": "del", "k": 2}], [k(2, "B")], [W[6]]][: (2 if q else 3)]):
            add(INITS[3], [[k(1, "A")], [k(1, "B")], third], dict(dfs, runs=150 if q else 2500))
            add(INITS[3], [[k(1, "A")], [k(1, "B")], third], {"kind": "random", "runs": 40 if q else 600, "seed": seed() + j})
    # two operations per thread, three threads: seeded random schedules
    rs = {"kind": "random", "runs": 25 if q else 300, "seed": seed()}
    menu = W + (R if prop in ("C05", "C15") else [])
    for i in range(8 if q else 80):
        th = [[rnd.choice(menu) for _ in range(2)] for _ in range(rnd.choice([2, 3]))]
        add(rnd.choice(INITS), th, rs, n=rnd.choice([1, 2, 10000]))
    # orphan clean-up against a put of the orphaned content, against removes
    if prop in ("C04", "C07", "C15"):
        for cl in ("cleanup", "quarantine", "cleanone"):
            for other in ([{"op": "put", "k": 1, "c": "C"}], [{"op": "put", "k": 2, "c": "C"}, {"op": "del", "k": 2}], [{"op": "del", "k": 1}]):
                add([{"op": "put", "k": 1, "c": "A"}], [[{"op": cl, "c": "C"}], other], dfs, plant=[{"c": "C"}])
    # a caller that keeps an IndexReadGuard alive and READS again while another thread writes (finding F6);
    # the schedule is forced so that the writer really queues inside state.write()
    if prop == "C15":
        # a reader sits at the blob open holding the index read guard, a writer is forced into state.write() (it really
        # queues), then the reader goes on: with an intact blob and with a MISSING blob (error path of the read)
        for rd in ("get", "range", "reader"):
            for setup in ([], [{"kind": "delete", "c": "A"}]):
                add([{"op": "put", "k": 1, "c": "A"}, {"op": "put", "k": 2, "c": "B"}], [[{"op": rd, "k": 1}], [{"op": "put", "k": 2, "c": "C"}]],
                    {"kind": "forced", "schedules": [[1, 1] + [2] * 6 + [1] * 6]}, plant=setup)
        for w in ([{"op": "put", "k": 1, "c": "B"}], [{"op": "ckpt"}]):
            pre = 6 if w[0]["op"] == "put" else 2
            add([{"op": "put", "k": 1, "c": "A"}], [[{"op": "guard"}, {"op": "get", "k": 1}, {"op": "unguard"}], w],
                {"kind": "forced", "schedules": [[1, 1] + [2] * pre + [1] * 5]})
    return sc


def add_guided(sc, prop, tier):
    q = tier == "quick"
    consts = dict(MC_BASE, ProgKeys="{1}", WithCkpt="FALSE") if prop != "C05" else dict(MC_BASE, ProgKeys="{1}", WithCkpt="FALSE")
    beh = guided_from_tlc(120 if q else 1500, 60, consts)
    groups = {}
    for b in beh:
        key = json.dumps([b["im"], b["threads"]], sort_keys=True)
        groups.setdefault(key, {"im": b["im"], "threads": b["threads"], "scheds": []})["scheds"].append(b["sched"])
    n = 0
    for g in groups.values():
        init = [{"op": "put", "k": k + 1, "c": c} for k, c in enumerate(g["im"]) if c != "-"]
        uniq = [list(x) for x in {tuple(s) for s in g["scheds"]}]
        sc.append({"id": f"{prop}-g{n}", "cfg": {"kt": "string", "n": 10000, "sync": True}, "init": init, "plant": [],
                   "threads": g["threads"], "env": {"mode": "conc"}, "explore": {"kind": "guided", "schedules": uniq}})
        n += 1
    return sum(len(g["scheds"]) for g in groups.values())


PROP_INV = {"C20": ["Inv_C03x"], "C07": ["Inv_C07", "Inv_C04"], "C04": ["Inv_C04", "Inv_C07", "Inv_C03x"], "C05": ["Inv_C05"], "C15": ["Inv_C15"], "C08": ["Inv_C04", "Inv_C07"], "C13": ["Inv_C04", "Inv_C07"]}
# C08 (clean-up never harms live data / a put that is committing) and C13 (an abandoned transaction does not disturb a
# concurrent one on the same key) are judged on their own program classes with the C04/C07 conjuncts of TraceConc
# OPFAIL: a put / remove / checkpoint / clean-up call returned an error although nothing was injected
# C06: (a blob whose bytes do not match its name, an in-place write under cas/) is what makes reads return mixed bytes
# C07 ("nothing more and nothing less" at the end of every schedule of an error-free program): a leaked blob is C07:,
# a referenced content without its file is C04: - both are violations of C07
PROP_TAGS = {"C20": ["C20:"], "C07": ["C07:", "C04:", "OPFAIL:"], "C04": ["C04:", "C07:", "C06:", "OPFAIL:"], "C05": ["C05:", "C06:", "C04:", "OPFAIL:"], "C15": ["C15:"], "C08": ["C04:", "C07:", "C06:", "OPFAIL:"],
             "C13": ["C04:", "C07:", "C05:", "C06:", "OPFAIL:"]}


def validate_conc(traces):
    import common
    cfg = "CONSTANTS\n  NK = 4\n" + "".join(f"  {k} = {v}\n" for k, v in CODE_FLAGS.items()) + \
          "SPECIFICATION Spec\nPOSTCONDITION AllConsumed\nCHECK_DEADLOCK FALSE\n"
    return common.validate_traces(traces, module="TraceConc", cfg=cfg)


def run_conc_check(prop, tier, replay=None, merge=False):
    """merge=True: this is the concurrent half of a property whose evidence file was just written by the sequential half"""
    t0 = time.time()
    rnd = random.Random(seed() * 104729 + int(prop[1:]))
    ensure_built()
    known = load_known()
    if replay:
        mc = {"states": 0, "transitions": 0, "violated": [], "configs": []}
        scen = [json.load(open(replay))]
        nguided = 0
    else:
        mc = run_mc(tier, PROP_INV[prop], liveness=(prop == "C15"), prop=prop) if PROP_INV[prop] else {"states": 0, "transitions": 0, "violated": [], "configs": []}
        log(f"[{prop}] MCConc: {mc['states']} distinct states, violated={mc['violated']}")
        scen = build_scenarios(prop, tier, rnd)
        nguided = add_guided(scen, prop, tier) if prop in ("C04", "C05", "C07", "C15") else 0
    log(f"[{prop}] {len(scen)} concurrent programs ({nguided} TLC-generated schedules among them)")
    t1 = time.time()
    try:
        traces = run_harness(scen, prop, need_shim=False)
    except HangFound as hf:
        # a call made outside the scheduled part (the initial operations, the restart at the end) never returned: reported with
        # the program that was running (a hang is a violation of "all calls return", whichever property's program class hit it)
        by = {json.dumps(s["id"]): s for s in scen}
        for h in hf.hangs[:3]:
            s = by.get(h["scenario"], {"id": h["scenario"]})
            rp = save_replay(prop, {k: v for k, v in s.items() if not k.startswith("_")})
            print(f"VIOLATION property={prop} replay={rp}")
            log(f"[{prop}]   a call did not return within the watchdog time: program {h['scenario']} operation {h['op']}")
        write_evidence(prop, tier, "model_checking",
                       {"states": max(1, mc["states"]), "transitions": max(1, mc.get("transitions", 0)), "traces_validated_against_impl": 0,
                        "samples": hf.hangs[:3], "hang": True}, time.time() - t0, len(hf.hangs), ["a call that does not return is a violation"])
        return 1
    t2 = time.time()
    fails, st = validate_conc(traces)
    t3 = time.time()
    log(f"[{prop}] harness {t2 - t1:.1f}s, validation {t3 - t2:.1f}s, {st['lines']} lines, {len(fails)} lines with failed checks")
    by_id = {s["id"]: s for s in scen}
    viol = {}
    knowns = {}
    drift = 0
    badruns = set()
    beyond = {}
    for f in fails:
        # observations beyond the listed properties: notes, never verdicts
        for tg in f["tags"]:
            if tg.startswith("BEYOND:"):
                beyond[tg] = beyond.get(tg, 0) + 1
        f["tags"] = [tg for tg in f["tags"] if not tg.startswith("BEYOND:")]
        if not f["tags"]:
            continue
        sid, _, sched = f["sid"].partition("#")
        sid = sid.strip('"')
        badruns.add(f["sid"])
        if any(t.startswith("DRIFT") for t in f["tags"]):
            drift += 1
        mine = [t for t in f["tags"] if any(t.startswith(p) for p in PROP_TAGS[prop])]
        if not mine or sid not in by_id:
            continue
        rs = find_reset(f["trace"], f["line"])
        k = match_known(prop, mine[0], rs, known)
        if k:
            knowns.setdefault(k["id"], (k, f, mine[0]))
        else:
            viol.setdefault(sid, (by_id[sid], f, mine[0], rs))
    for kid, (k, f, t) in knowns.items():
        print(f"KNOWN-FINDING: property={prop} {k['id']} {k['what']} (tag {t}, run {f['sid']})")
    nviol = 0
    for sid, (s, f, t, rs) in list(viol.items())[:5]:
        rp = dict(s)
        # a forced schedule (threads really block in locks) must be replayed as forced
        rp["explore"] = {"kind": "forced" if s["explore"].get("kind") == "forced" else "guided", "schedules": [rs["schedule"]]}
        path = save_replay(prop, rp)
        print(f"VIOLATION property={prop} replay={path}")
        log(f"[{prop}]   tag={t} program={json.dumps(s['threads'])} init={json.dumps(s['init'])} schedule={rs['schedule']}")
        nviol += 1
    for t in mc["violated"]:
        log(f"[{prop}] NOTE model-level property {t} violated in MCConc")
    for tg, c in sorted(beyond.items()):
        print(f"NOTE beyond the listed properties: {tg} ({c} recorded cases)")
    if drift:
        print(f"NOTE drift: {drift} recorded steps are not steps of CasConc (no property conjunct failed there)")
    runs = count_runs(traces)
    cov = {"states": max(1, mc["states"]), "transitions": max(1, mc["transitions"]),
           "traces_validated_against_impl": runs - len(badruns),
           "samples": [{"init": s["init"], "threads": s["threads"], "explore": {k: v for k, v in s["explore"].items() if k != "schedules"}} for s in scen[:3]],
           "programs": len(scen), "schedules_executed": runs, "tlc_generated_schedules": nguided, "trace_lines_checked": st["lines"],
           "drift_lines": drift, "model_configs": mc["configs"], "model_invariants": PROP_INV[prop],
           "model_invariants_violated": mc["violated"], "known_findings_hit": sorted(knowns), "exhaustive": False,
           "harness_s": round(t2 - t1, 1), "validation_s": round(t3 - t2, 1)}
    if merge:
        import json as _j
        ep = os.path.join(common_root(), "evidence", prop + ".json")
        old = _j.load(open(ep))
        oc = old["coverage"]
        oc["concurrent_part"] = cov
        oc["states"] += cov["states"]
        oc["transitions"] += cov["transitions"]
        oc["traces_validated_against_impl"] += cov["traces_validated_against_impl"]
        old["violations"] = old.get("violations", 0) + nviol
        old["wall_s"] = round(old["wall_s"] + time.time() - t0, 2)
        _j.dump(old, open(ep, "w"), indent=1)
        return 1 if nviol else 0
    write_evidence(prop, tier, "model_checking", cov, time.time() - t0, nviol,
                   ["threads are serialised at the yield points of the verif feature; races inside one step are not explored",
                    "parking_lot, kernel rename/unlink atomicity trusted", "bounds: see model_configs and programs"])
    return 1 if nviol else 0


def common_root():
    import common
    return common.ROOT


def find_reset(trace, lineno):
    last = None
    with open(trace) as f:
        for i, x in enumerate(f, 1):
            if i > lineno:
                break
            if x.startswith('{"cfg"') or '"ev":"reset"' in x[:400]:
                j = json.loads(x)
                if j.get("ev") == "reset":
                    last = j
    return last


def count_runs(traces):
    n = 0
    for t in traces:
        with open(t) as f:
            for x in f:
                if '"ev":"reset"' in x[:2000]:
                    n += 1
    return n


def match_known(prop, tag, rs, known):
    for k in known:
        if k.get("status") != "open" or k.get("property") != prop:
            continue
        kind = k.get("signature", {}).get("kind")
        th = rs["threads"] if rs else []
        if kind == "same_key_overlap" and tag.startswith("C04"):
            puts = [op["k"] for t in th for op in t if op["op"] == "put"]
            if len(puts) != len(set(puts)):
                return k
        if kind == "read_lookup_open_race" and tag.startswith("C05:read-failed-BlobDataMissing"):
            return k
        if kind == "nested_read_under_guard" and tag.startswith("C15:deadlock"):
            if any(op["op"] == "guard" for t in th for op in t):
                return k
    return None
