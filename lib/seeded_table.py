#!/usr/bin/env python3
"""Prints the DESIGN.md table rows of the seeded changes of one round: seeded_table.py r2 | r3 | '' (round 1)."""
import json
import os
import sys

suffix = sys.argv[1] if len(sys.argv) > 1 else ""
root = os.path.join(os.path.dirname(os.path.dirname(os.path.abspath(__file__))), "seeded")
print("| id | change (short) | needs | detection |")
print("|----|----------------|-------|-----------|")
for d in sorted(os.listdir(root)):
    base, _, suf = d.partition("-")
    if (suffix == "" and suf) or (suffix and not suf.startswith(suffix)):
        continue
    m = json.load(open(os.path.join(root, d, "meta.json")))
    cut = lambda s, n: (s[:n].rsplit(" ", 1)[0] + "...") if len(s) > n else s
    clean = lambda s: " ".join(str(s).replace("|", "/").split())
    print(f"| {d} | {cut(clean(m.get('summary', '')), 260)} | {cut(clean(m.get('needs', '')), 200)} | {clean(m.get('detection', ''))} |")
