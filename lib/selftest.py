"""check selftest: shows that the binding between recorded executions and the specifications is live.
(1) a recorded sequential trace and a recorded concurrent trace are accepted as they are; (2) the same traces with ONE recorded
field corrupted (an index entry, a reference count, a statistic, a read result, a directory listing, a guard accessor, a
result value, a lock mask, the decoded log) are rejected by TLC with a tag of the expected family; (3) a trace with a line
TLC cannot consume is reported as unconsumed.  Not a property check; exit 0 = every corruption was noticed."""
import copy
import json
import os

import common
import conccheck
from common import ToolError, ensure_built, log, run_harness, validate_traces, workdir


def _load(path):
    return [json.loads(x) for x in open(path)]


def _dump(lines, path):
    with open(path, "w") as f:
        for l in lines:
            f.write(json.dumps(l) + "\n")


def _first(lines, pred):
    for i, l in enumerate(lines):
        if pred(l):
            return i
    raise ToolError("selftest: no line to corrupt")


SEQ_OPS = [{"op": "put", "k": 1, "c": "A"}, {"op": "put", "k": 2, "c": "A"}, {"op": "put", "k": 3, "c": "B"}, {"op": "put", "k": 1, "c": "G"},
           {"op": "delr", "lo": ["I", 2], "hi": ["I", 2]}, {"op": "ckpt"}, {"op": "reopen"}, {"op": "del", "k": 3}]


def seq_corruptions():
    """(name, predicate on line, mutation, expected tag prefixes)"""
    full = lambda l: l.get("ev") == "op" and l["op"].get("op") == "put" and l["op"].get("k") == 3
    def m(path_fn):
        return path_fn
    return [
        ("index entry", full, lambda l: l["obs"]["idx"].__setitem__(0, "B"), ["C01:index"]),
        ("reference count", full, lambda l: l["obs"]["refc"].__setitem__(0, 5), ["C12:refcount"]),
        ("total bytes statistic", full, lambda l: l["obs"]["stats"].__setitem__(1, l["obs"]["stats"][1] + 1), ["C12:stats"]),
        ("get result", full, lambda l: l["obs"]["get"].__setitem__(1, "B"), ["C01:get"]),
        ("iteration order", full, lambda l: l["obs"]["iter"].reverse(), ["C01:iteration"]),
        ("guard accessor contains_key", full, lambda l: l["obs"]["gapi"]["has"].__setitem__(0, False), ["C01:guard-api"]),
        ("guard accessor keys_snapshot", full, lambda l: l["obs"]["gapi"]["snap"].pop(), ["C01:guard-api"]),
        ("cas/ listing (a leaked blob)", full, lambda l: l["obs"]["disk"]["cas"].append("C"), ["C07:cas-listing"]),
        ("staging file left", full, lambda l: l["obs"]["disk"].__setitem__("stg", 1), ["C07:staging"]),
        ("in-place write counter", full, lambda l: l["obs"].__setitem__("casw", 1), ["C06:in-place"]),
        ("result of remove_range", lambda l: l.get("ev") == "op" and l["op"].get("op") == "delr", lambda l: l["res"].__setitem__("n", 2), ["C01:result"]),
        ("a log record dropped from the decoded directory", full, lambda l: l["obs"]["disk"]["segs"][-1]["items"].pop(), ["C20:decode-equals-history", "DRIFT"]),
        ("a descriptor left open on a staging file", full, lambda l: l["obs"].__setitem__("fds", 1), ["C13:staging-descriptor"]),
    ]


def conc_corruptions():
    step = lambda l: l.get("ev") == "step" and l["obs"].get("has_idx") and any(x != "-" for x in l["obs"]["idx"])
    ret = lambda l: l.get("ev") == "step" and any(r["op"]["op"] == "get" for r in l.get("rets", []))
    def drop_blob(l):
        c = next(x for x in l["obs"]["idx"] if x != "-")
        l["obs"]["cas"] = [x for x in l["obs"]["cas"] if x != c]
    def wrong_read(l):
        for r in l["rets"]:
            if r["op"]["op"] == "get":
                r["res"]["val"] = "M"
    def maxrec(l):
        best = None
        for s in l["obs"]["disk"]["segs"]:
            for j, it in enumerate(s["items"]):
                if it.get("t") == "rec" and (best is None or it["v"] > best[2]):
                    best = (s, j, it["v"])
        return best
    def drop_rec(l):
        s, j, _ = maxrec(l)
        del s["items"][j:]
    # a step after which the newest record is not yet covered by the snapshot
    def has_rec(l):
        if not step(l) or "disk" not in l["obs"]:
            return False
        b = maxrec(l)
        snap = l["obs"]["disk"]["snap"]
        return b is not None and b[2] > (snap.get("ver", 0) if isinstance(snap, dict) else 0)
    return [
        ("a referenced blob missing from the listing", step, drop_blob, ["C04:dangling"]),
        ("a read result nobody wrote", ret, wrong_read, ["C05:read-value"]),
        ("blob bytes do not match the name", step, lambda l: l["obs"].__setitem__("casbad", ["A"]), ["C06:blob-bytes"]),
        ("lock mask", step, lambda l: l["obs"]["mask"].__setitem__("i", not l["obs"]["mask"]["i"]), ["DRIFT:lock-mask"]),
        ("a log record dropped at a step", has_rec, drop_rec, ["C03:crash-image", "C20:", "C04:dangling-after-crash"]),
    ]


def run_selftest():
    ensure_built()
    wd = workdir()
    problems = []
    # ---- sequential
    sc = [{"id": "ST-seq", "cfg": {"kt": "string", "n": 3, "sync": True}, "ops": SEQ_OPS, "env": {"mode": "plain"}, "chunk": 2}]
    tr = run_harness(sc, "st", shards=1)[0]
    fails, st = validate_traces([tr])
    if fails:
        problems.append(f"the unmodified sequential trace is rejected: {fails[:2]}")
    lines = _load(tr)
    n_ok = 0
    for name, pred, mut, expect in seq_corruptions():
        ls = copy.deepcopy(lines)
        mut(ls[_first(ls, pred)])
        p = os.path.join(wd, "st-mut.ndjson")
        _dump(ls, p)
        f2, _ = validate_traces([p])
        tags = [t for f in f2 for t in f["tags"]]
        if any(t.startswith(e) for t in tags for e in expect):
            n_ok += 1
            log(f"[selftest] seq: corrupted {name}: rejected with {sorted(set(tags))[:4]}")
        else:
            problems.append(f"seq: corrupted {name} NOT noticed (tags {tags})")
    # a line TLC cannot consume
    ls = copy.deepcopy(lines)
    ls[3]["ev"] = "nonsense"
    p = os.path.join(wd, "st-unc.ndjson")
    _dump(ls, p)
    try:
        validate_traces([p])
        problems.append("a trace with an unknown event was accepted")
    except ToolError:
        log("[selftest] seq: unknown event: reported as unconsumed")
        n_ok += 1
    # ---- concurrent
    # (key 3 is written last in the set-up and touched by no thread: dropping its record cannot be excused by an operation in flight)
    csc = [{"id": "ST-conc", "cfg": {"kt": "string", "n": 10000, "sync": True},
            "init": [{"op": "put", "k": 1, "c": "A"}, {"op": "put", "k": 2, "c": "A"}, {"op": "put", "k": 3, "c": "B"}],
            "plant": [], "threads": [[{"op": "put", "k": 1, "c": "B"}, {"op": "get", "k": 2}], [{"op": "del", "k": 2}, {"op": "get", "k": 1}]],
            "env": {"mode": "conc"}, "explore": {"kind": "dfs", "bound": 1, "runs": 3}}]
    ctr = run_harness(csc, "stc", shards=1, need_shim=False)[0]
    fails, st = conccheck.validate_conc([ctr])
    real = [f for f in fails if not all(t.startswith("DRIFT") for t in f["tags"])]
    if real:
        problems.append(f"the unmodified concurrent trace is rejected: {real[:2]}")
    clines = _load(ctr)
    for name, pred, mut, expect in conc_corruptions():
        ls = copy.deepcopy(clines)
        mut(ls[_first(ls, pred)])
        p = os.path.join(wd, "stc-mut.ndjson")
        _dump(ls, p)
        f2, _ = conccheck.validate_conc([p])
        tags = [t for f in f2 for t in f["tags"]]
        if any(t.startswith(e) for t in tags for e in expect):
            n_ok += 1
            log(f"[selftest] conc: corrupted {name}: rejected with {sorted(set(tags))[:4]}")
        else:
            problems.append(f"conc: corrupted {name} NOT noticed (tags {tags})")
    for pr in problems:
        print("SELFTEST-PROBLEM:", pr)
    print(f"selftest: {n_ok} corruptions noticed, {len(problems)} problems")
    return 2 if problems else 0
