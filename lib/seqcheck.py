"""Checks decided with CasSteps (+MCSteps, GenSeq, TraceSeq): C01 C02 C03 C06 C07 C08 C09 C10 C12 C13 C14 C19 C20."""
import json
import os
import random
import time

from common import (HangFound, ToolError, cfg_text, ensure_built, gen_scenarios, load_known, log, parse_mc, run_harness,
                    save_replay, seed, tlc, trace_line, validate_traces, write_evidence)

KTS = ["string", "bytes", "arr4", "u32", "i64", "u128"]
NS = [1, 2, 3, 10000]

# ---------------------------------------------------------------------------------------------
# model checking configurations (MCSteps)
# ---------------------------------------------------------------------------------------------
MC_BASE = {"NK": 2, "SplitBigRecords": "FALSE", "MaxOps": 3, "MaxCrashes": 1, "WalN": 2, "BigKeys": "{}", "PutContents": '{"A", "B"}',
           "AbortKeys": "{1}", "Ranges": ("<-", "FullRange")}
ALL_INV = ["Inv_C01", "Inv_C02", "Inv_C03", "Inv_C07", "Inv_C12", "Inv_C20", "Inv_OpenOk"]


def mc_configs(tier):
    if tier == "quick":
        return [dict(MC_BASE, MaxOps=4, WalN=2, MaxCrashes=1), dict(MC_BASE, MaxOps=3, WalN=1, MaxCrashes=2)]
    return [dict(MC_BASE, MaxOps=5, WalN=n, MaxCrashes=2) for n in (1, 2, 3)] + \
           [dict(MC_BASE, MaxOps=4, WalN=2, MaxCrashes=2, NK=3, PutContents='{"A", "B", "E"}', Ranges=("<-", "AllRanges"))]


POWER_BASE = {"NK": 2, "SplitBigRecords": "FALSE", "SyncStaged": "TRUE", "MaxOps": 3, "MaxCrashes": 1, "WalN": 2, "PutContents": '{"A", "B"}'}
FAULT_BASE = {"NK": 2, "SplitBigRecords": "FALSE", "MaxOps": 3, "MaxFaults": 1, "WalN": 2, "PutContents": '{"A", "B"}'}
DAMAGE_BASE = {"NK": 2, "SplitBigRecords": "FALSE", "MaxOps": 3, "MaxCrashes": 1, "WalN": 2, "PutContents": '{"A", "B"}'}

# property -> (module, configs per tier, invariants) where the base model is extended by an environment
SPECIAL_MC = {
    "C09": ("MCPower", {"quick": [dict(POWER_BASE), dict(POWER_BASE, WalN=1, MaxOps=2)],
                        "thorough": [dict(POWER_BASE, MaxOps=4, WalN=n, MaxCrashes=2) for n in (1, 2, 3)]},
            ["Inv_C09", "Inv_C03", "Inv_OpenOk"]),
    # ExcuseF7 is TRUE only while finding F7 is listed as open in known_findings.json
    "C10": ("MCDamage", {"quick": [dict(DAMAGE_BASE, ExcuseF7="@F7", ContinueAfterDamage="FALSE"), dict(DAMAGE_BASE, WalN=1, ExcuseF7="@F7", ContinueAfterDamage="FALSE")],
                         "thorough": [dict(DAMAGE_BASE, MaxOps=4, WalN=n, MaxCrashes=2, ExcuseF7="@F7", ContinueAfterDamage="FALSE") for n in (1, 2, 3)]},
            ["Inv_C10"]),
    "C14": ("MCFault", {"quick": [dict(FAULT_BASE), dict(FAULT_BASE, WalN=1)],
                        "thorough": [dict(FAULT_BASE, MaxOps=4, WalN=n, MaxFaults=f) for n, f in ((1, 1), (2, 1), (3, 1), (2, 2))]},
            ["Inv_C14_Contained", "Inv_C14_Reopen", "Inv_C14_OpenOk", "Inv_C12"]),
}


def run_mc(tier, invariants, extra_consts=None, workers=8, prop=None):
    tot = {"states": 0, "distinct": 0, "violated": [], "configs": []}
    module = "MCSteps"
    configs = mc_configs(tier)
    if prop in SPECIAL_MC:
        module, per_tier, invariants = SPECIAL_MC[prop]
        configs = per_tier[tier]
    tot["module"] = module
    open_ids = {k["id"] for k in load_known() if k.get("status") == "open"}
    for c in configs:
        c = dict(c)
        if extra_consts:
            c.update(extra_consts)
        for key, val in list(c.items()):
            if isinstance(val, str) and val.startswith("@"):
                c[key] = "TRUE" if val[1:] in open_ids else "FALSE"
        out = tlc(module, cfg_text(c, invariants=invariants), workers=workers, timeout=2400, heap="12g", name="mc")
        r = parse_mc(out)
        if r["error"] or not r["finished"]:
            raise ToolError(module + " failed: " + str(r["error"]) + out[-2000:])
        tot["states"] += r["distinct"]
        tot["transitions"] = tot.get("transitions", 0) + r["states"]
        tot["violated"] += r["violated"]
        tot["configs"].append({k: (v[1] if isinstance(v, tuple) else v) for k, v in c.items()} | {"distinct": r["distinct"], "depth": r["depth"]})
    if prop in ("C03", "C14"):
        # liveness of recovery: under weak fairness of the code's own steps every operation and every open returns, however the
        # (at most two, nested) kills are placed; a recovery step that loops, or an open that a crash state blocks, shows here
        lcfgs = [dict(MC_BASE, MaxOps=2, WalN=1, MaxCrashes=2)] if tier == "quick" else \
                [dict(MC_BASE, MaxOps=3, WalN=n, MaxCrashes=2) for n in (1, 2)]
        if prop == "C14" and tier == "quick":
            lcfgs = []
        for c in lcfgs:
            out = tlc("MCSteps", cfg_text(c, spec="FairSpec", extra=["PROPERTIES Live_Returns Live_Reopens"]), workers=workers, timeout=2400,
                      heap="12g", name="mclive")
            r = parse_mc(out)
            if r["error"] or not r["finished"]:
                raise ToolError("MCSteps liveness failed: " + str(r["error"]) + out[-2000:])
            tot["states"] += r["distinct"]
            tot["transitions"] += r["states"]
            tot["violated"] += r["violated"]
            tot["configs"].append({k: (v[1] if isinstance(v, tuple) else v) for k, v in c.items()} |
                                  {"module": "MCSteps", "spec": "FairSpec", "properties": "Live_Returns Live_Reopens", "distinct": r["distinct"]})
    if prop == "C12":
        # unbounded history length: the bookkeeping invariant is inductive (every state satisfying it x every operation)
        c = {"NK": 2 if tier == "quick" else 3}
        out = tlc("MCCounts", cfg_text(c, invariants=["Inv_C12_Inductive"], extra=["PROPERTY Unref_C07"]), workers=workers, timeout=2400,
                  heap="8g", name="mcind")
        r = parse_mc(out)
        if r["error"] or not r["finished"]:
            raise ToolError("MCCounts failed: " + str(r["error"]) + out[-2000:])
        tot["states"] += r["distinct"]
        tot["transitions"] += r["states"]
        tot["violated"] += r["violated"]
        tot["configs"].append(dict(c, module="MCCounts", inductive=True, distinct=r["distinct"]))
    return tot


# ---------------------------------------------------------------------------------------------
# scenario sources
# ---------------------------------------------------------------------------------------------
GEN_BASE = {"NK": 4, "SplitBigRecords": "FALSE", "MaxLen": 3, "WalN": 2, "GenKeys": "{1, 2}", "GenContents": '{"A", "B"}', "AbortOn": "TRUE",
            "CleanupOn": "FALSE", "LeafOnly": "TRUE", "Ranges": ("<-", "FewRanges")}

WITNESS = [
    # three segment files alive at once is impossible without a crash; two at rollover; N=1 edge cases
    [{"op": "reopen"}, {"op": "reopen"}],
    [{"op": "put", "k": 1, "c": "A"}, {"op": "reopen"}, {"op": "reopen"}, {"op": "put", "k": 2, "c": "B"}, {"op": "reopen"}],
    [{"op": "put", "k": 1, "c": "A"}, {"op": "put", "k": 2, "c": "A"}, {"op": "ckpt"}, {"op": "reopen"}, {"op": "put", "k": 3, "c": "A"},
     {"op": "del", "k": 1}, {"op": "reopen"}, {"op": "delr", "lo": ["U", 0], "hi": ["U", 0]}, {"op": "reopen"}],
    [{"op": "put", "k": 1, "c": "E"}, {"op": "put", "k": 2, "c": "E"}, {"op": "put", "k": 1, "c": "G"}, {"op": "put", "k": 1, "c": "E"},
     {"op": "del", "k": 2}, {"op": "put", "k": 4, "c": "C"}, {"op": "abort", "k": 4, "c": "G"}, {"op": "reopen"}],
    [{"op": "ckpt"}, {"op": "put", "k": 3, "c": "C"}, {"op": "ckpt"}, {"op": "ckpt"}, {"op": "put", "k": 3, "c": "C"}, {"op": "reopen"},
     {"op": "put", "k": 3, "c": "G"}, {"op": "delr", "lo": ["I", 3], "hi": ["I", 3]}, {"op": "reopen"}],
    [{"op": "put", "k": 1, "c": "A"}, {"op": "put", "k": 2, "c": "B"}, {"op": "put", "k": 3, "c": "A"}, {"op": "put", "k": 4, "c": "B"},
     {"op": "delr", "lo": ["X", 1], "hi": ["X", 4]}, {"op": "reopen"}, {"op": "delr", "lo": ["I", 1], "hi": ["I", 4]}, {"op": "reopen"}],
    # a content larger than any internal buffer or read step (300 000 bytes), shared, overwritten, removed, re-put
    [{"op": "put", "k": 2, "c": "H"}, {"op": "put", "k": 3, "c": "H"}, {"op": "put", "k": 2, "c": "G"}, {"op": "reopen"},
     {"op": "delr", "lo": ["I", 3], "hi": ["I", 3]}, {"op": "put", "k": 1, "c": "H"}, {"op": "abort", "k": 1, "c": "H"}, {"op": "reopen"}],
    # the store is emptied exactly around a segment boundary, then used again
    [{"op": "put", "k": 1, "c": "A"}, {"op": "put", "k": 2, "c": "B"}, {"op": "put", "k": 3, "c": "A"}, {"op": "del", "k": 3},
     {"op": "delr", "lo": ["I", 1], "hi": ["I", 2]}, {"op": "reopen"}, {"op": "put", "k": 1, "c": "B"}, {"op": "reopen"}, {"op": "reopen"}],
    # a checkpoint after every operation (also twice in a row, also with nothing new)
    [{"op": "put", "k": 1, "c": "A"}, {"op": "ckpt"}, {"op": "put", "k": 2, "c": "A"}, {"op": "ckpt"}, {"op": "del", "k": 1}, {"op": "ckpt"},
     {"op": "ckpt"}, {"op": "reopen"}, {"op": "put", "k": 2, "c": "B"}, {"op": "ckpt"}, {"op": "delr", "lo": ["U", 0], "hi": ["U", 0]},
     {"op": "ckpt"}, {"op": "reopen"}, {"op": "ckpt"}, {"op": "reopen"}],
    # reclaim a content and store it again (same and other key), repeatedly
    [{"op": "put", "k": 1, "c": "A"}, {"op": "put", "k": 1, "c": "B"}, {"op": "put", "k": 2, "c": "A"}, {"op": "del", "k": 2},
     {"op": "put", "k": 3, "c": "A"}, {"op": "put", "k": 3, "c": "A"}, {"op": "del", "k": 3}, {"op": "put", "k": 3, "c": "A"}, {"op": "reopen"},
     {"op": "put", "k": 1, "c": "A"}, {"op": "delr", "lo": ["U", 0], "hi": ["U", 0]}, {"op": "put", "k": 4, "c": "B"}, {"op": "reopen"}],
    # aborts: of the empty content (with and without a write call), over an existing value, then ordinary use
    [{"op": "put", "k": 1, "c": "E"}, {"op": "abort", "k": 1, "c": "E"}, {"op": "abort", "k": 2, "c": "E"}, {"op": "abort", "k": 1, "c": "A"},
     {"op": "put", "k": 2, "c": "A"}, {"op": "abort", "k": 2, "c": "C"}, {"op": "put", "k": 3, "c": "B"}, {"op": "abort", "k": 3, "c": "G"},
     {"op": "put", "k": 3, "c": "C"}, {"op": "reopen"}],
    # ONE range removal releases a content held by two / three of the removed keys while another content stays alive
    [{"op": "put", "k": 1, "c": "A"}, {"op": "put", "k": 2, "c": "A"}, {"op": "put", "k": 3, "c": "G"}, {"op": "delr", "lo": ["I", 1], "hi": ["I", 2]},
     {"op": "reopen"}, {"op": "put", "k": 1, "c": "G"}, {"op": "put", "k": 2, "c": "G"}, {"op": "put", "k": 4, "c": "C"},
     {"op": "delr", "lo": ["U", 0], "hi": ["I", 3]}, {"op": "put", "k": 2, "c": "E"}, {"op": "put", "k": 3, "c": "E"}, {"op": "put", "k": 1, "c": "C"},
     {"op": "delr", "lo": ["X", 1], "hi": ["X", 4]}, {"op": "reopen"}, {"op": "delr", "lo": ["U", 0], "hi": ["U", 0]}, {"op": "reopen"}],
    # a content of more than 1 MiB (1.2 MB): stored, shared, read whole and through windows of more than 1 MiB after every step,
    # overwritten by a small one and back, reclaimed, stored again
    [{"op": "put", "k": 2, "c": "M"}, {"op": "put", "k": 4, "c": "M"}, {"op": "put", "k": 2, "c": "B"}, {"op": "reopen"}, {"op": "put", "k": 2, "c": "M"},
     {"op": "del", "k": 4}, {"op": "del", "k": 2}, {"op": "put", "k": 1, "c": "M"}, {"op": "ckpt"}, {"op": "reopen"}],
]


def variants(i, kts=None, ns=None, syncs=(True, False)):
    kts = kts or KTS
    ns = ns or NS
    # strict = Config::fail_on_integrity_errors: the gate of Cas::open only; nothing else may depend on it
    return {"kt": kts[i % len(kts)], "n": ns[(i // len(kts)) % len(ns)], "sync": syncs[(i // (len(kts) * len(ns))) % len(syncs)],
            "strict": i % 5 == 2}


def random_walks(num, depth, rnd, keys=(1, 2, 3, 4), contents=("A", "B", "E", "C", "G"), weights=None):
    out = []
    for _ in range(num):
        ops = []
        for _ in range(depth):
            r = rnd.random()
            k = rnd.choice(keys)
            if r < 0.40:
                ops.append({"op": "put", "k": k, "c": rnd.choice(contents)})
            elif r < 0.50:
                ops.append({"op": "abort", "k": k, "c": rnd.choice(contents)})
            elif r < 0.65:
                ops.append({"op": "del", "k": k})
            elif r < 0.75:
                a, b = sorted((rnd.choice(keys), rnd.choice(keys)))
                lo = rnd.choice([["U", 0], ["I", a], ["X", a]])
                hi = rnd.choice([["U", 0], ["I", b], ["X", b]])
                if lo[0] == "X" and hi[0] == "X" and a == b:
                    hi = ["I", b]
                ops.append({"op": "delr", "lo": lo, "hi": hi})
            elif r < 0.85:
                ops.append({"op": "ckpt"})
            else:
                ops.append({"op": "reopen"})
        out.append(ops)
    return out


def sharing_walks(num, depth, rnd):
    """few contents over all four keys, many range removals: one operation releases a content held by several of its keys"""
    out = []
    for _ in range(num):
        cs = rnd.sample(["A", "B", "E", "C", "G"], 2)
        ops = []
        for _ in range(depth):
            r = rnd.random()
            if r < 0.55:
                ops.append({"op": "put", "k": rnd.randint(1, 4), "c": cs[0] if rnd.random() < 0.7 else cs[1]})
            elif r < 0.85:
                a, b = sorted((rnd.randint(1, 4), rnd.randint(1, 4)))
                if a == b:
                    a, b = max(1, a - 1), min(4, b + 1)
                ops.append({"op": "delr", "lo": rnd.choice([["U", 0], ["I", a]]), "hi": rnd.choice([["U", 0], ["I", b]])})
            elif r < 0.93:
                ops.append({"op": "del", "k": rnd.randint(1, 4)})
            else:
                ops.append({"op": rnd.choice(["reopen", "ckpt"])})
        out.append(ops)
    return out


def dedupe_prefixes(oplists):
    """drop op lists that are a strict prefix of another (every prefix is checked line by line anyway)"""
    keys = sorted(json.dumps(o)[:-1] for o in oplists)
    keep = []
    for i, k in enumerate(keys):
        if i + 1 < len(keys) and keys[i + 1].startswith(k):
            continue
        keep.append(json.loads(k + "]"))
    return keep


def sources(tier, prop, rnd):
    """op lists for the API-level modes"""
    if tier == "quick":
        hist = gen_scenarios(dict(GEN_BASE, MaxLen=3), "ViewAll")
        walks = gen_scenarios(dict(GEN_BASE, MaxLen=14, GenContents='{"A", "B", "E"}', Ranges=("<-", "AllRanges")), "ViewAll", simulate=(60, 20))
        rw = random_walks(40, 25, rnd) + sharing_walks(40, 16, rnd)
    else:
        hist = gen_scenarios(dict(GEN_BASE, MaxLen=4), "ViewAll", timeout=1200)
        cover = gen_scenarios(dict(GEN_BASE, MaxLen=5, LeafOnly="FALSE", Ranges=("<-", "OneRange")), "ViewState", timeout=1200)
        hist = hist + dedupe_prefixes(cover)
        walks = gen_scenarios(dict(GEN_BASE, MaxLen=40, GenKeys="{1, 2, 3}", GenContents='{"A", "B", "E", "G"}', Ranges=("<-", "AllRanges")),
                              "ViewAll", simulate=(600, 60), timeout=1200)
        rw = random_walks(1500, 60, rnd) + sharing_walks(1500, 24, rnd)
    return hist, walks + rw + WITNESS


# ---------------------------------------------------------------------------------------------
# known findings (signatures are evaluated on the recorded trace line that failed)
# ---------------------------------------------------------------------------------------------
def match_known(prop, tag, line, scen, known):
    for k in known:
        if k.get("status") != "open" or k.get("property") != prop:
            continue
        sig = k.get("signature", {})
        kind = sig.get("kind")
        if kind == "torn_big_record":
            if line and line.get("ev") == "img" and line.get("call") == "write" and line.get("path") == "wal" and \
               any(it.get("t") == "hdr" for s in line["rec"]["disk"]["segs"] for it in s["items"]):
                return k
        if kind == "wal_write_fault":
            if scen["env"].get("mode") == "fault" and scen.get("_fault_call") == ["write", "wal"]:
                return k
        if kind == "noncanonical_name":
            if line and line.get("ev") == "plant" and any(p.get("kind") in ("upper", "split") for p in line.get("plants", [])):
                return k
        if kind == "damage_in_older_segment":
            # only a CUT (truncation) of an older segment is the known finding; an altered byte there must be rejected
            if line and line.get("ev") == "dmg" and line.get("_older") and line.get("kind") == "cut":
                return k
        if kind == "tag_prefix" and tag.startswith(sig.get("prefix", "\0")) and sig.get("mode") == scen["env"].get("mode"):
            return k
    return None


# ---------------------------------------------------------------------------------------------
# the generic sequential check
# ---------------------------------------------------------------------------------------------
def build_scenarios(prop, tier, rnd):
    """returns list of scenario dicts (id, cfg, ops, env, chunk)"""
    sc = []

    def add(ops, cfg, env, chunk=0):
        sc.append({"id": f"{prop}-{len(sc)}", "cfg": cfg, "ops": ops, "env": env, "chunk": chunk})

    q = tier == "quick"
    if prop in ("C01", "C02", "C07", "C12", "C13"):
        hist, long_ = sources(tier, prop, rnd)
        off = rnd.randrange(1000)
        for i, ops in enumerate(hist):
            add(ops, variants(i + off), {"mode": "plain"}, chunk=i)
        for i, ops in enumerate(long_):
            add(ops, variants(i + off), {"mode": "plain"}, chunk=i)
        # the hand-written witnesses under EVERY segment size, both sync modes, several chunkings (incl. "no write call")
        for wi, ops in enumerate(WITNESS):
            for ni, n in enumerate(NS + [4]):
                add(ops, {"kt": KTS[(wi + ni) % len(KTS)], "n": n, "sync": (wi + ni) % 2 == 0}, {"mode": "plain"}, chunk=[6, 0, 3, 2, 5][ni] + wi)
        # environment "short writes": every write(2) on a file of the store accepts only half of what it is offered (legal kernel
        # behaviour that no test machine shows). The model has no such step: nothing observable may differ. Witnesses (staged
        # contents up to 1.2 MB, log records, snapshots, settings) and long keys (records of 9 KB and more).
        for wi, ops in enumerate(WITNESS):
            add(ops, {"kt": KTS[wi % len(KTS)], "n": (NS + [4])[wi % 5], "sync": wi % 2 == 1}, {"mode": "plain", "short_writes": True}, chunk=wi + 1)
        for i, ops in enumerate(long_[: (4 if q else 40)]):
            add(ops, dict(variants(i + 1), kt=["string_big", "bytes_big"][i % 2]), {"mode": "plain", "short_writes": True}, chunk=i + 2)
        # one store with the pre-created directory tree (commit skips mkdir there): reclaim a content, store it again
        add(WITNESS[9], {"kt": "string", "n": 3, "sync": True, "pre": True}, {"mode": "plain"}, chunk=1)
        if prop == "C13":
            # abandoned transactions of contents beyond every internal size class (300 000 bytes, 1.2 MB), every chunking
            big = [{"op": "put", "k": 1, "c": "A"}, {"op": "abort", "k": 1, "c": "M"}, {"op": "abort", "k": 2, "c": "H"}, {"op": "put", "k": 2, "c": "B"},
                   {"op": "abort", "k": 2, "c": "M"}, {"op": "put", "k": 3, "c": "M"}, {"op": "abort", "k": 3, "c": "M"}, {"op": "abort", "k": 4, "c": "G"},
                   {"op": "reopen"}, {"op": "abort", "k": 1, "c": "H"}, {"op": "put", "k": 4, "c": "C"}]
            # abandoned transactions with ONE failing filesystem call somewhere in the abandonment (fault histories, judged by the
            # C13 conjunct of TraceSeq!FaultFails and the ordinary C14 ones)
            fa = [[{"op": "put", "k": 1, "c": "A"}, {"op": "abort", "k": 1, "c": "B"}, {"op": "abort", "k": 2, "c": "A"}, {"op": "abort", "k": 2, "c": "C"},
                   {"op": "put", "k": 2, "c": "B"}, {"op": "abort", "k": 1, "c": "G"}, {"op": "abort", "k": 3, "c": "E"}, {"op": "put", "k": 3, "c": "A"}]]
            for i, ops in enumerate(fa):
                for ch in (0, 6, 3):
                    add(ops, {"kt": "string", "n": 10000, "sync": True}, {"mode": "fault", "errno": ["EIO", "ENOSPC"][ch % 2]}, chunk=ch)
            # transactions abandoned by a panic of their owner (unwinding drops them) - same guarantee
            pan = [{"op": "put", "k": 1, "c": "A"}, {"op": "abort", "k": 1, "c": "B", "panic": True}, {"op": "abort", "k": 2, "c": "G", "panic": True},
                   {"op": "put", "k": 2, "c": "B"}, {"op": "abort", "k": 2, "c": "M", "panic": True}, {"op": "abort", "k": 3, "c": "E", "panic": True},
                   {"op": "reopen"}, {"op": "abort", "k": 1, "c": "C", "panic": True}, {"op": "put", "k": 3, "c": "C"}]
            for ch in range(3):
                add(pan, {"kt": KTS[ch], "n": [2, 10000, 1][ch], "sync": ch != 1}, {"mode": "plain"}, chunk=ch + 2)
            for ch in range(7 if not q else 4):
                add(big, {"kt": KTS[ch % len(KTS)], "n": [3, 10000, 1][ch % 3], "sync": True}, {"mode": "plain"}, chunk=ch)
            # very many abandoned transactions in one session (more than any plausible cap on open transactions /
            # descriptors / pooled buffers), then ordinary use
            many = []
            for i in range(140 if q else 600):
                many.append({"op": "abort", "k": 1 + i % 4, "c": ["A", "B", "C", "E"][i % 4]})
            many = many[:70] + [{"op": "put", "k": 1, "c": "A"}] + many[70:] + [{"op": "abort", "k": 1, "c": "G"}] * (140 if q else 200) + \
                [{"op": "put", "k": 2, "c": "B"}, {"op": "put", "k": 1, "c": "G"}, {"op": "del", "k": 2}, {"op": "reopen"}]
            add(many, {"kt": "string", "n": 10000, "sync": True}, {"mode": "plain"}, chunk=3)
        if prop == "C02":
            # a restart right after ONE very large log record (a range removal over many / long keys: 1.3 MB, 4 MB, 18 MB, 40 MB) and
            # after a removal whose record is the last of its segment
            for j, (bn, kl, ck, wn) in enumerate([(150, 9000, True, 10000), (1300, 0, False, 1000), (2000, 9000, False, 10000)] if q else
                                                 [(150, 9000, True, 10000), (1300, 0, False, 1000), (450, 9000, False, 3), (5000, 40, True, 5003),
                                                  (2000, 9000, False, 10000), (4400, 9000, True, 10000)]):
                add([], {"kt": "string", "n": wn, "sync": j % 2 == 0}, {"mode": "bulk", "n": bn, "distinct": 1, "ckpt": ck, "keylen": kl})
        # big-record key types
        for i, ops in enumerate(long_[: (10 if q else 100)]):
            add(ops, dict(variants(i), kt=["string_big", "bytes_big"][i % 2]), {"mode": "plain"}, chunk=i)
    elif prop in ("C03", "C06", "C20", "C08", "C09"):
        mode = "power" if prop == "C09" else "crash"
        walks = random_walks(24 if q else 400, 8 if q else 14, rnd, keys=(1, 2, 3), contents=("A", "B", "E", "G"))
        gens = gen_scenarios(dict(GEN_BASE, MaxLen=(2 if q else 3), Ranges=("<-", "OneRange"), AbortOn="FALSE"), "ViewAll")
        if q:
            rnd.shuffle(gens)
            gens = gens[:30]
        ws = WITNESS[1:4] if q else WITNESS
        for i, ops in enumerate(gens + walks + ws):
            # process-kill images are also taken in Async mode (the background sync thread changes no content);
            # power loss (C09) is a Sync-mode property
            cfg = {"kt": ["string", "bytes", "u32"][i % 3], "n": [1, 2, 3][(i // 3) % 3], "sync": mode == "power" or i % 4 != 3}
            env = {"mode": mode, "nested": (i % (3 if q else 2) == 0) and mode == "crash", "cont": mode == "crash"}
            add(ops, cfg, env, chunk=i)
        if mode == "crash":
            # long histories: segment ids with two digits (10 follows 9), versions beyond one byte; imaged near the end only
            for j, n in enumerate([2, 3] if q else [2, 3, 1, 2, 3]):
                # exactly 10n-1 logged operations (every put is logged), so that the first two operations of the tail
                # are the last record of segment 9 and the first record of segment 10, on the same keys
                pre = [{"op": "put", "k": 1 + v % 3, "c": ["A", "B", "E"][(v + j) % 3]} for v in range(10 * n - 1)]
                tail = [{"op": "put", "k": 1, "c": "A"}, {"op": "delr", "lo": ["I", 1], "hi": ["I", 2]}, {"op": "put", "k": 2, "c": "B"},
                        {"op": "put", "k": 1, "c": "B"}, {"op": "del", "k": 2}]
                add(pre + tail, {"kt": ["string", "u32"][j % 2], "n": n, "sync": True},
                    {"mode": "crash", "nested": False, "cont": True, "from": max(1, len(pre) - 2)}, chunk=j)
        if prop in ("C09", "C06"):
            # a content of exactly 4 MiB - a whole multiple of every plausible internal window (64 KiB, 1 MiB, 4 MiB) - streamed in
            # pieces smaller than the write buffer, with a power-loss image at every boundary: what was acknowledged is whole
            # (the chunking class of operation i is (chunk + i) mod 7: 2 -> 4096-byte pieces, 5 -> 5000-byte pieces, 4 -> 8192 + rest)
            for ch in ((2,) if q else (2, 5, 4)):
                add([{"op": "put", "k": 1, "c": "X"}], {"kt": "string", "n": 10000, "sync": True}, {"mode": "power", "nested": False, "cont": False}, chunk=ch)
        if mode == "crash":
            # a second session that works NEXT TO the leftovers of a killed one (no clean-up first): staging files of the dead
            # session (up to 1.2 MB streamed) must not leak into what the new session commits or abandons
            left = [[{"op": "put", "k": 1, "c": "G"}, {"op": "put", "k": 2, "c": "H"}], [{"op": "abort", "k": 1, "c": "G"}, {"op": "put", "k": 1, "c": "M"}],
                    [{"op": "put", "k": 3, "c": "C"}, {"op": "put", "k": 3, "c": "G"}, {"op": "abort", "k": 2, "c": "H"}]]
            nocl = [{"op": "put", "k": 1, "c": "B"}, {"op": "put", "k": 2, "c": "A"}, {"op": "put", "k": 3, "c": "E"}, {"op": "abort", "k": 4, "c": "C"},
                    {"op": "put", "k": 4, "c": "C"}, {"op": "reopen"}, {"op": "put", "k": 1, "c": "A"}]
            for j, ops in enumerate(left[:2] if q else left):
                for ch in ((0, 3) if q else (0, 3, 5, 6)):
                    add(ops, {"kt": KTS[(j + ch) % len(KTS)], "n": [10000, 2][j % 2], "sync": True},
                        {"mode": "crash", "nested": False, "cont": True, "cont_ops": nocl}, chunk=ch)
        if prop == "C03":
            # first-time initialisation with the pre-created directory tree (65 792 mkdirs): images at a sparse selection of
            # its boundaries; every recovered store must be fully usable for contents in any cas/ sub-directory
            cont = [{"op": "cleanup"}] + [{"op": "put", "k": 1 + i % 4, "c": c} for i, c in enumerate(["A", "B", "C", "E", "G"])] + \
                   ([] if q else [{"op": "del", "k": 2}, {"op": "ckpt"}, {"op": "reopen"}])
            add([{"op": "put", "k": 1, "c": "A"}], {"kt": "string", "n": 2, "sync": True, "pre": True},
                {"mode": "crash", "nested": False, "cont": True, "cont_ops": cont, "sparse_open": "few" if q else "more"})
            # block abstraction: a range removal over MANY keys (more than any plausible internal batch) is still one
            # operation; an image at every boundary inside it recovers to all-or-nothing
            for j, (bn, dist, ck, wn) in enumerate([(1300, 1, True, 1000), (70, 7, False, 3), (4500, 2, False, 10000)] if q else
                                                   [(1300, 1, True, 1000), (70, 7, False, 3), (2100, 50, True, 500), (5000, 1, False, 10000),
                                                    (300, 300, True, 7), (1025, 2, False, 2000), (4097, 3, True, 4096)]):
                add([], {"kt": "string", "n": wn, "sync": j % 3 != 2}, {"mode": "bulk", "n": bn, "distinct": dist, "ckpt": ck})
        if prop == "C06":
            # a reader obtained before an overwrite / removal / re-put of the same content / reopen keeps
            # streaming the complete original content
            rd = []
            for c in ("A", "G", "C", "E", "H", "M"):
                rd.append([{"op": "put", "k": 1, "c": c}, {"op": "rdopen", "k": 1, "id": 1}, {"op": "put", "k": 1, "c": "B"}, {"op": "rddrain", "id": 1}])
                rd.append([{"op": "put", "k": 1, "c": c}, {"op": "rdopen", "k": 1, "id": 1}, {"op": "del", "k": 1}, {"op": "ckpt"}, {"op": "rddrain", "id": 1}])
                rd.append([{"op": "put", "k": 1, "c": c}, {"op": "put", "k": 2, "c": c}, {"op": "rdopen", "k": 2, "id": 7},
                           {"op": "delr", "lo": ["U", 0], "hi": ["U", 0]}, {"op": "put", "k": 3, "c": c}, {"op": "rdopen", "k": 3, "id": 8},
                           {"op": "put", "k": 3, "c": c}, {"op": "reopen"}, {"op": "del", "k": 3}, {"op": "rddrain", "id": 7}, {"op": "rddrain", "id": 8}])
            # Sync mode: whatever is visible under cas/ has been synced before it got there - also a re-put of a content that
            # is stored already must not put an unsynced file in its place (power-loss images, judged by the blob conjunct)
            pw = [[{"op": "put", "k": 1, "c": "G"}, {"op": "put", "k": 2, "c": "G"}, {"op": "put", "k": 1, "c": "G"}],
                  [{"op": "put", "k": 1, "c": "A"}, {"op": "del", "k": 1}, {"op": "put", "k": 1, "c": "A"}, {"op": "put", "k": 2, "c": "A"}],
                  [{"op": "put", "k": 1, "c": "C"}, {"op": "put", "k": 1, "c": "C"}, {"op": "put", "k": 3, "c": "H"}, {"op": "put", "k": 2, "c": "H"}]]
            for j, ops in enumerate(pw if q else pw + walks[:40]):
                add(ops, {"kt": ["string", "bytes"][j % 2], "n": [2, 3, 1][j % 3], "sync": True}, {"mode": "power", "nested": False, "cont": False}, chunk=j)
            for w in walks[: (6 if q else 100)]:
                w2 = []
                for j, o in enumerate(w):
                    w2.append(o)
                    if o["op"] == "put" and j % 2 == 0:
                        w2.append({"op": "rdopen", "k": o["k"], "id": j})
                w2 += [{"op": "rddrain", "id": j} for j in range(len(w))]
                rd.append(w2)
            for i, ops in enumerate(rd):
                add(ops, {"kt": KTS[i % len(KTS)], "n": [2, 1, 10000][i % 3], "sync": i % 2 == 0}, {"mode": "plain"}, chunk=i)
            # environment "short writes" (every write(2) accepts half of what it is offered): whatever appears under cas/ still holds
            # the complete bytes its name promises, for every content class under every chunking
            sw = [{"op": "put", "k": 1, "c": "G"}, {"op": "put", "k": 2, "c": "C"}, {"op": "put", "k": 3, "c": "H"}, {"op": "put", "k": 4, "c": "M"},
                  {"op": "put", "k": 1, "c": "A"}, {"op": "reopen"}, {"op": "put", "k": 2, "c": "G"}, {"op": "put", "k": 3, "c": "B"}]
            for ch in range(4 if q else 8):
                add(sw, {"kt": KTS[ch % len(KTS)], "n": [2, 10000, 1][ch % 3], "sync": ch % 2 == 0}, {"mode": "plain", "short_writes": True}, chunk=ch)
        if prop in ("C03", "C20"):
            # large multi-key / large-key records (two write calls per record)
            for i, ops in enumerate(walks[: (4 if q else 60)]):
                add(ops, {"kt": ["string_big", "bytes_big"][i % 2], "n": [2, 3][i % 2], "sync": True},
                    {"mode": mode, "nested": False, "cont": True}, chunk=i)
        if prop == "C20":
            # "at every instant" includes the instants after a failed filesystem call: the fault histories of C14,
            # judged here by the well-formedness conjuncts only
            fx = [[{"op": "put", "k": 1, "c": "A"}, {"op": "put", "k": 2, "c": "B"}, {"op": "put", "k": 3, "c": "A"}, {"op": "put", "k": 1, "c": "B"},
                   {"op": "ckpt"}, {"op": "put", "k": 2, "c": "A"}, {"op": "del", "k": 1}, {"op": "put", "k": 3, "c": "B"}],
                  [{"op": "put", "k": 1, "c": "A"}, {"op": "reopen"}, {"op": "put", "k": 2, "c": "B"}, {"op": "delr", "lo": ["U", 0], "hi": ["U", 0]},
                   {"op": "put", "k": 1, "c": "B"}, {"op": "put", "k": 2, "c": "B"}],
                  # a failed append burns a version; a checkpoint stamps it; restart; one more operation; restart
                  [{"op": "put", "k": 1, "c": "A"}, {"op": "put", "k": 2, "c": "B"}, {"op": "ckpt"}, {"op": "reopen"}, {"op": "put", "k": 3, "c": "A"},
                   {"op": "reopen"}, {"op": "del", "k": 1}, {"op": "ckpt"}, {"op": "reopen"}, {"op": "put", "k": 1, "c": "B"}]]
            for i, ops in enumerate(fx + (walks[:4] if q else walks[:60])):
                add(ops, {"kt": ["string", "bytes"][i % 2], "n": [2, 3, 10000, 4, 1][i % 5], "sync": True}, {"mode": "fault", "errno": ["EIO", "ENOSPC"][i % 2]}, chunk=i)
        if prop == "C08":
            base = [[{"op": "put", "k": 1, "c": "A"}, {"op": "put", "k": 2, "c": "B"}, {"op": "put", "k": 3, "c": "A"}, {"op": "ckpt"}],
                    [{"op": "put", "k": 1, "c": "G"}, {"op": "put", "k": 2, "c": "E"}, {"op": "put", "k": 3, "c": "C"}, {"op": "put", "k": 4, "c": "B"}],
                    []]
            plants = [
                [{"kind": "orphan", "c": "C"}],
                [{"kind": "orphan", "c": "C"}, {"kind": "orphan", "c": "E"}, {"kind": "staging", "name": ".tmpLEFT"}],
                [{"kind": "junk", "level": 1, "name": "stray"}, {"kind": "junk", "level": 2, "name": "stray"}, {"kind": "junk", "level": 3, "name": "stray"}],
                [{"kind": "junk", "level": 3, "name": "zz"}, {"kind": "junk", "level": 3, "name": "0123456789abcdef0123456789abcdef0123456789abcdef0123456789ab"}],
                [{"kind": "junk", "level": 3, "name": "0123456789abcdef0123456789abcdef0123456789abcdef0123456789abcdef"}],
                [{"kind": "corrupt", "c": "A"}], [{"kind": "resize", "c": "A"}], [{"kind": "delete", "c": "A"}],
                # every content class on its own: the empty blob (can only grow), the 1-byte, 8 KiB and 70 KB blobs
                [{"kind": "corrupt", "c": "E"}], [{"kind": "resize", "c": "E"}], [{"kind": "corrupt", "c": "B"}], [{"kind": "resize", "c": "B"}],
                [{"kind": "corrupt", "c": "G"}], [{"kind": "resize", "c": "G"}], [{"kind": "corrupt", "c": "C"}],
                [{"kind": "corrupt", "c": "G"}, {"kind": "delete", "c": "E"}, {"kind": "orphan", "c": "C"}],
                [{"kind": "staging", "name": "x"}, {"kind": "stagingdir"}],
                # missing AND orphaned at once, with as many / more orphans than missing blobs (a count-based short cut
                # would call the store complete); for each base history at least one of these deletes a live content
                [{"kind": "delete", "c": "A"}, {"kind": "orphan", "c": "C"}],
                [{"kind": "delete", "c": "A"}, {"kind": "orphan", "c": "C"}, {"kind": "orphan", "c": "E"}, {"kind": "orphan", "c": "H"}],
                [{"kind": "delete", "c": "G"}, {"kind": "orphan", "c": "A"}],
                [{"kind": "delete", "c": "G"}, {"kind": "delete", "c": "B"}, {"kind": "orphan", "c": "A"}, {"kind": "orphan", "c": "H"}, {"kind": "corrupt", "c": "C"}],
                [{"kind": "delete", "c": "A"}, {"kind": "delete", "c": "B"}, {"kind": "orphan", "c": "G"}],
                [{"kind": "delete", "c": "E"}, {"kind": "junk", "level": 3, "name": "stray"}, {"kind": "orphan", "c": "A"}, {"kind": "staging", "name": ".tmpLEFT"}],
                [{"kind": "upper", "c": "A"}], [{"kind": "split", "c": "A"}],
            ]
            for i, ops in enumerate(base):
                add(ops, {"kt": KTS[i % len(KTS)], "n": 2, "sync": True}, {"mode": "plant", "plants": plants})
    elif prop == "C10":
        walks = random_walks(6 if q else 60, 5 if q else 9, rnd, keys=(1, 2, 3), contents=("A", "B", "E"))
        fixed = [[{"op": "put", "k": 1, "c": "A"}, {"op": "put", "k": 2, "c": "B"}, {"op": "delr", "lo": ["U", 0], "hi": ["U", 0]}],
                 [{"op": "put", "k": 1, "c": "A"}, {"op": "ckpt"}, {"op": "put", "k": 2, "c": "B"}, {"op": "del", "k": 1}],
                 # byte-identical consecutive records (the same key re-put with unchanged content, twice and three times in a row):
                 # each of them is verified on its own
                 [{"op": "put", "k": 1, "c": "A"}, {"op": "put", "k": 1, "c": "A"}, {"op": "put", "k": 2, "c": "B"}, {"op": "put", "k": 2, "c": "B"},
                  {"op": "put", "k": 2, "c": "B"}]]
        for i, ops in enumerate(fixed + walks):
            # no reopen/ckpt at the end: leave an uncheckpointed tail
            ops = [o for o in ops if o["op"] != "reopen"] if i % 2 else ops
            # (the third fixed history needs its identical records in ONE segment: the large segment size)
            cfg = {"kt": ["string", "bytes", "i64", "string_big"][i % 4], "n": 10000 if i == 2 else [3, 10000, 2][i % 3], "sync": True, "strict": i % 2 == 1}
            # every offset and every checksum/payload byte, also in the quick tier (a single unlucky byte matters)
            add(ops, cfg, {"mode": "damage", "stride": 1, "flipvals": ([255] if q else [1, 128, 255])}, chunk=i)
        # crash images in which the un-checkpointed records span two segment files
        two = [[{"op": "put", "k": 1, "c": "A"}, {"op": "put", "k": 2, "c": "B"}, {"op": "put", "k": 3, "c": "A"}],
               [{"op": "put", "k": 1, "c": "A"}, {"op": "del", "k": 1}, {"op": "put", "k": 2, "c": "B"}, {"op": "put", "k": 3, "c": "E"}]]
        for i, ops in enumerate(two if q else two + walks[:20]):
            add(ops, {"kt": ["string", "bytes"][i % 2], "n": [2, 3][i % 2] if i < 2 else 2, "sync": True, "strict": i % 2 == 0},
                {"mode": "damage", "crash": "two_segments", "stride": 1, "flipvals": [255]}, chunk=i)
    elif prop == "C14":
        walks = random_walks(10 if q else 120, 5 if q else 8, rnd, keys=(1, 2), contents=("A", "B", "G"))
        fixed = [[{"op": "put", "k": 1, "c": "A"}, {"op": "put", "k": 1, "c": "B"}, {"op": "put", "k": 2, "c": "B"}, {"op": "del", "k": 2}],
                 [{"op": "put", "k": 1, "c": "A"}, {"op": "put", "k": 2, "c": "A"}, {"op": "delr", "lo": ["U", 0], "hi": ["U", 0]}, {"op": "put", "k": 1, "c": "B"}],
                 # faults while appending to a segment that earlier sessions already filled partly
                 [{"op": "put", "k": 1, "c": "A"}, {"op": "put", "k": 2, "c": "B"}, {"op": "reopen"}, {"op": "put", "k": 3, "c": "A"},
                  {"op": "del", "k": 1}, {"op": "reopen"}, {"op": "put", "k": 1, "c": "B"}, {"op": "ckpt"}, {"op": "put", "k": 2, "c": "A"}],
                 [{"op": "put", "k": 1, "c": "G"}, {"op": "reopen"}, {"op": "put", "k": 1, "c": "A"}, {"op": "reopen"}, {"op": "del", "k": 1}],
                 # a failed removal of one holder of a shared content, then the other holder is removed (reclaims the blob), restart
                 [{"op": "put", "k": 1, "c": "A"}, {"op": "put", "k": 2, "c": "A"}, {"op": "put", "k": 3, "c": "B"}, {"op": "del", "k": 1}, {"op": "del", "k": 2},
                  {"op": "reopen"}, {"op": "put", "k": 3, "c": "A"}, {"op": "delr", "lo": ["I", 1], "hi": ["I", 2]}],
                 # a failed append burns a version; a checkpoint stamps it; restart; one more operation; restart
                 [{"op": "put", "k": 1, "c": "A"}, {"op": "put", "k": 2, "c": "B"}, {"op": "ckpt"}, {"op": "reopen"}, {"op": "put", "k": 3, "c": "A"},
                  {"op": "reopen"}, {"op": "del", "k": 1}, {"op": "ckpt"}, {"op": "reopen"}, {"op": "put", "k": 1, "c": "B"}],
                 # a failed checkpoint (rollover or explicit) followed by checkpoints with nothing new, then a restart
                 [{"op": "put", "k": 1, "c": "A"}, {"op": "put", "k": 2, "c": "B"}, {"op": "put", "k": 3, "c": "A"}, {"op": "ckpt"}, {"op": "ckpt"},
                  {"op": "reopen"}, {"op": "put", "k": 1, "c": "B"}, {"op": "ckpt"}, {"op": "ckpt"}]]
        for i, ops in enumerate(fixed):
            # the fixed histories also with one big segment (no rollover between the sessions) and with tiny ones
            add(ops, {"kt": ["string", "bytes"][i % 2], "n": 10000, "sync": True}, {"mode": "fault", "errno": "EIO"}, chunk=i)
            add(ops, {"kt": "string", "n": 2, "sync": True}, {"mode": "fault", "errno": "ENOSPC"}, chunk=i)
        for i, ops in enumerate(fixed + walks):
            cfg = {"kt": ["string", "bytes", "string_big"][i % 3], "n": [2, 10000, 3, 1][i % 4], "sync": True}
            add(ops, cfg, {"mode": "fault", "errno": ["EIO", "ENOSPC"][i % 2]}, chunk=i)
    elif prop == "C19":
        walks = random_walks(4 if q else 30, 5, rnd, keys=(1, 2, 3), contents=("A", "B"))
        for i, ops in enumerate([[]] + walks):
            ops = [o for o in ops if o["op"] != "reopen"]
            for n in ([1, 2, 10000] if q else NS):
                after = [{"op": "put", "k": 4, "c": "C"}, {"op": "put", "k": 3, "c": "G"}, {"op": "put", "k": 2, "c": "E"}, {"op": "del", "k": 4}]
                # every reopen value with both pre-creation requests (the flag must not open a way around the gate)
                trials = [{"n2": n2, "ver": v, "pre2": p2, "ops": after[: 1 + (n2 % 3)]} for n2 in NS for v in (4,) for p2 in (False, True)] + \
                         [{"n2": n, "ver": v, "pre2": p2} for v in (3, 5, 0) for p2 in (False, True)] + \
                         [{"n2": n, "ver": 4, "pre2": False, "ops": after},
                          # created without the pre-created tree, reopened by a caller who asks for it: the stored choice rules
                          {"n2": n, "ver": 4, "pre2": True, "ops": after}]
                add(ops, {"kt": KTS[i % len(KTS)], "n": n, "sync": True, "pre": False}, {"mode": "gate", "trials": trials}, chunk=i)
        # pre-created directory tree (65 792 directories): twice per run
        for pre in (True, False):
            add(WITNESS[2], {"kt": "string", "n": 2, "sync": True, "pre": pre},
                {"mode": "gate", "trials": [{"n2": 2, "ver": 4, "pre2": not pre,
                                             # ... and contents that were reclaimed earlier are stored again (their cas/ sub-directories)
                                             "ops": [{"op": "put", "k": 4, "c": "C"}, {"op": "put", "k": 3, "c": "B"}, {"op": "del", "k": 4},
                                                     {"op": "put", "k": 1, "c": "A"}, {"op": "put", "k": 4, "c": "C"}, {"op": "del", "k": 1}, {"op": "put", "k": 2, "c": "A"}]},
                                            {"n2": 3, "ver": 4, "pre2": pre}]})
    return sc


PROP_TAGS = {
    # C13: "...and a concurrent or later transaction on the same key is unaffected": in C13's abort-heavy histories a
    # later operation that shows wrong bytes, a wrong listing or wrong counts is a consequence of the abandoned one
    "C01": ["C01:"], "C02": ["C02:"], "C07": ["C07:"], "C12": ["C12:"], "C13": ["C13:", "C01:", "C06:", "C07:", "C12:"],
    "C03": ["C03:"], "C06": ["C06:"], "C20": ["C20:"], "C08": ["C08:"], "C09": ["C09:"],
    # C19's scenarios continue to use the store after an admitted open (e.g. with the other pre-creation choice):
    # "does not change behaviour observably" is judged with the ordinary per-operation conjuncts
    "C10": ["C10:"], "C14": ["C14:"], "C19": ["C19:", "C01:", "C07:", "C12:", "C02:"],
}
PROP_INV = {
    "C01": ["Inv_C01"], "C02": ["Inv_C02", "Inv_OpenOk"], "C07": ["Inv_C07"], "C12": ["Inv_C12"], "C13": ["Inv_C01", "Inv_C07"],
    "C03": ["Inv_C03", "Inv_OpenOk"], "C06": ["Inv_C03"], "C20": ["Inv_C20"], "C08": ["Inv_C07"], "C09": ["Inv_C03"],
    "C10": ["Inv_C20"], "C14": ["Inv_C01"], "C19": ["Inv_OpenOk"],
}


def run_seq_check(prop, tier, replay=None):
    t0 = time.time()
    rnd = random.Random(seed() * 7919 + int(prop[1:]))
    ensure_built()
    known = load_known()
    # 1. the design: exhaustive model check of the fine-grained specification
    if replay:
        mc = {"states": 0, "transitions": 0, "violated": [], "configs": [], "module": "-"}
        scen = [json.load(open(replay))]
    else:
        mc = run_mc(tier, PROP_INV[prop], prop=prop)
        log(f"[{prop}] {mc['module']}: {mc['states']} distinct states, violated={mc['violated']}")
        scen = build_scenarios(prop, tier, rnd)
        if prop == "C10":
            # beyond C10 (observation F8, DESIGN.md 6): the model with the store USED after an accepted damaged directory
            c = dict(DAMAGE_BASE, MaxCrashes=0, WalN=10, ExcuseF7="TRUE", ContinueAfterDamage="TRUE")
            o8 = tlc("MCDamage", cfg_text(c, invariants=["Inv_Beyond_UsableAfterAcceptedDamage"]), workers=4, timeout=900, name="mcf8")
            r8 = parse_mc(o8)
            mc["beyond_F8_model"] = {"config": c, "violated": r8["violated"], "distinct": r8["distinct"]}
            if r8["violated"]:
                print("NOTE beyond the listed properties: MCDamage with ContinueAfterDamage = TRUE violates Inv_Beyond_UsableAfterAcceptedDamage "
                      "(observation F8: what is appended behind an accepted torn tail is lost at the next restart)")
    need_shim = any(s["env"]["mode"] in ("crash", "power", "fault") or s["env"].get("crash") for s in scen)
    log(f"[{prop}] {len(scen)} scenarios")
    # 2. the code: run, record
    t1 = time.time()
    try:
        traces = run_harness(scen, prop, need_shim=need_shim)
    except HangFound as hf:
        # a call that never returned: reported with the scenario that was running (the rest of that shard is lost)
        by = {json.dumps(s["id"]): s for s in scen}
        for h in hf.hangs[:3]:
            s = by.get(h["scenario"], {"id": h["scenario"]})
            rp = save_replay(prop, {k: v for k, v in s.items() if not k.startswith("_")})
            print(f"VIOLATION property={prop} replay={rp}")
            log(f"[{prop}]   a call did not return within the watchdog time: scenario {h['scenario']} operation {h['op']}")
        write_evidence(prop, tier, "model_checking",
                       {"states": max(1, mc["states"]), "transitions": max(1, mc.get("transitions", 0)), "traces_validated_against_impl": 0,
                        "samples": hf.hangs[:3], "hang": True}, time.time() - t0, len(hf.hangs), ["a call that does not return is a violation"])
        return 1
    t2 = time.time()
    # 3. the verdict: TLC evaluates the recorded executions against the specification
    fails, st = validate_traces(traces)
    t3 = time.time()
    log(f"[{prop}] harness {t2 - t1:.1f}s, validation {t3 - t2:.1f}s, {st['lines']} lines, {len(fails)} lines with failed checks")
    by_id = {s["id"]: s for s in scen}
    prefixes = PROP_TAGS[prop]
    viol = {}
    drift = 0
    bad_sids = set()
    knowns = {}
    beyond = {}
    foreign = {}
    for f in fails:
        # observations beyond the listed properties (DESIGN.md 9): notes, never verdicts
        for t in f["tags"]:
            if t.startswith("BEYOND:"):
                beyond[t] = beyond.get(t, 0) + 1
        f["tags"] = [t for t in f["tags"] if not t.startswith("BEYOND:")]
        if not f["tags"]:
            continue
        # a conjunct of this property evaluated in the continuation of a crash image carries the prefix "C03:cont-"
        mine = [t for t in f["tags"] if any(t.startswith(p) or t.startswith("C03:cont-" + p) for p in prefixes)]
        if any(t.startswith("DRIFT") for t in f["tags"]):
            drift += 1
        bad_sids.add(f["sid"])
        for t in f["tags"]:
            if t not in mine:
                foreign[t] = foreign.get(t, 0) + 1
        if not mine:
            continue
        line = trace_line(f["trace"], f["line"])
        s = by_id.get(f["sid"])
        if s is None:
            continue
        annotate(line, s, f["trace"], f["line"])
        for t in mine:
            k = match_known(prop, t, line, s, known)
            if k:
                knowns.setdefault(k["id"], (k, f, t))
            else:
                viol.setdefault(f["sid"], (s, f, t))
    if foreign:
        log(f"[{prop}] tags of other properties on the recorded lines (decided by their own checks): {foreign}")
    for t in mc["violated"]:
        # a violated model invariant is reported only through its reproduction on the code (mode B / A above);
        # here it is recorded in the evidence
        log(f"[{prop}] NOTE model-level invariant {t} violated in {mc.get('module')}")
    if mc["violated"] and not viol and not knowns:
        # the design itself admits a bad state but no recorded execution showed it: the specification and the
        # code have drifted apart (or the specification was edited) - that is a tool error, not a verdict
        raise ToolError(f"model-level invariants {mc['violated']} violated but not reproduced on the code")
    nviol = 0
    for kid, (k, f, t) in knowns.items():
        print(f"KNOWN-FINDING: property={prop} {k['id']} {k['what']} (tag {t}, scenario {f['sid']})")
    for sid, (s, f, t) in list(viol.items())[:5]:
        rp = save_replay(prop, {k: v for k, v in s.items() if not k.startswith("_")})
        print(f"VIOLATION property={prop} replay={rp}")
        log(f"[{prop}]   tag={t} scenario={sid} line={f['line']} all-tags={f['tags']}")
        nviol += 1
    for t, c in sorted(beyond.items()):
        print(f"NOTE beyond the listed properties: {t} ({c} recorded cases)")
    if drift:
        print(f"NOTE drift: {drift} recorded steps are not steps of the fine-grained model (no property conjunct failed there)")
    matched = len([s for s in scen if s["id"] not in bad_sids])
    samples = [{"cfg": s["cfg"], "ops": s["ops"], "env": {k: v for k, v in s["env"].items() if k != "plants"}} for s in scen[:3]]
    cov = {"states": max(1, mc["states"]), "transitions": max(1, mc.get("transitions", 0)),
           "traces_validated_against_impl": matched, "samples": samples,
           "scenarios": len(scen), "trace_lines_checked": st["lines"], "drift_lines": drift,
           "model_module": mc.get("module", "MCSteps"), "model_configs": mc["configs"], "model_invariants": SPECIAL_MC[prop][2] if prop in SPECIAL_MC else PROP_INV[prop], "model_invariants_violated": mc["violated"],
           "known_findings_hit": sorted(knowns), "exhaustive": False, "beyond_notes": beyond, "beyond_model": mc.get("beyond_F8_model"),
           "harness_s": round(t2 - t1, 1), "validation_s": round(t3 - t2, 1)}
    write_evidence(prop, tier, "model_checking", cov, time.time() - t0, nviol,
                   ["BLAKE3, kernel rename/flock atomicity and parking_lot are trusted",
                    "process-kill crash model at libc-call granularity; hash collisions do not exist in the model",
                    "bounds: see model_configs (exhaustive) and scenarios (replayed on the code)"])
    return 1 if nviol else 0


def annotate(line, scen, trace, lineno):
    """derive the facts the known-finding signatures need from the recorded trace"""
    if not line:
        return
    if scen["env"].get("mode") == "fault":
        # find the op line of this run that hit the fault
        with open(trace) as f:
            ls = [json.loads(x) for i, x in enumerate(f, 1) if i <= lineno + 60]
        i = lineno - 1
        while i >= 0 and ls[i]["ev"] != "reset":
            i -= 1
        j = i + 1
        while j < len(ls) and ls[j]["ev"] != "reset":
            fl = ls[j].get("fault", {})
            if fl.get("hit"):
                scen["_fault_call"] = [fl["call"], fl["path"]]
                break
            j += 1
    if line.get("ev") == "dmg":
        with open(trace) as f:
            base = None
            for i, x in enumerate(f, 1):
                if i >= lineno:
                    break
                if '"ev":"dmgbase"' in x:
                    base = json.loads(x)
        if base:
            sv = base["disk"]["snap"]["ver"]
            unck = [s["id"] for s in base["disk"]["segs"] if any(it.get("t") == "rec" and it["v"] > sv for it in s["items"])]
            line["_older"] = bool(unck) and line["seg"] != max(unck)
